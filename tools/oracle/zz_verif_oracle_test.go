package http2

// Differential validation of the reference models in /verif/harness against
// golang.org/x/net/http2/hpack (a dependency of the repository, so it is in
// the module cache). This decides no property: it checks the oracles the
// harnesses compare the implementation with. Run by `gosmt selftest`.

import (
	"bytes"
	"fmt"
	"math/rand"
	"testing"

	"golang.org/x/net/http2/hpack"
)

type vOField struct {
	name, value string
	never       bool
}

func vORefName(f *refField) string {
	if f.sidx != 0 {
		return refStatic[f.sidx-1][0]
	}
	return string(f.name)
}

func vORefValue(f *refField) string {
	if f.whole {
		return refStatic[f.sidx-1][1]
	}
	return string(f.value)
}

// vORefBlock decodes a whole block with the reference decoder.
// unsupported: the block needs a Huffman string beyond the reference's bound.
func vORefBlock(t *refTable, b []byte) (out []vOField, ok bool, lenient bool, unsupported bool) {
	defer func() {
		if r := recover(); r != nil {
			if _, is := r.(vUnsupportedT); is {
				unsupported = true
				return
			}
			panic(r)
		}
	}()
	atStart := true
	first := true
	for len(b) > 0 {
		// Where x/net and RFC 7541 4.2 part ways on size updates: x/net takes
		// "at the beginning of a block" as "the very first representation, or
		// any place while the table is empty"; the RFC allows several updates
		// in a row at the beginning and none later. Such blocks are not compared.
		if b[0]&0xe0 == 0x20 && !first {
			if (atStart && len(t.ents) > 0) || (!atStart && len(t.ents) == 0) {
				return out, false, true, false
			}
		}
		f, update, used, st := refHpackRep(t, atStart, b)
		if st != refOK {
			return out, false, false, false
		}
		first = false
		if !update {
			atStart = false
			out = append(out, vOField{vORefName(&f), vORefValue(&f), f.never})
		}
		b = b[used:]
	}
	return out, true, false, false
}

func vOXnetBlock(d *hpack.Decoder, b []byte) (out []vOField, ok bool) {
	d.SetEmitFunc(func(f hpack.HeaderField) {
		out = append(out, vOField{f.Name, f.Value, f.Sensitive})
	})
	_, err := d.Write(b)
	if err == nil {
		err = d.Close()
	} else {
		_ = d.Close()
	}
	return out, err == nil
}

// vOTableProbe reads x/net's dynamic table through indexed representations.
func vOTableProbe(d *hpack.Decoder, n int) []vOField {
	var out []vOField
	for i := 0; i < n; i++ {
		f, ok := vOXnetBlock(d, []byte{0x80 | byte(62+i)})
		if !ok || len(f) != 1 {
			break
		}
		out = append(out, f[0])
	}
	return out
}

func vOCompareBlock(t *testing.T, prefix, block []byte, limit uint32) (compared bool) {
	rt := &refTable{max: 4096, limit: limit}
	if limit < 4096 {
		rt.max = limit
	}
	xd := hpack.NewDecoder(rt.max, nil)
	xd.SetAllowedMaxDynamicTableSize(limit)
	if len(prefix) > 0 {
		_, ok1, _, _ := vORefBlock(rt, prefix)
		_, ok2 := vOXnetBlock(xd, prefix)
		if !ok1 || !ok2 {
			t.Fatalf("prefix %x: ref ok=%v x/net ok=%v", prefix, ok1, ok2)
		}
	}
	rf, rok, lenient, unsup := vORefBlock(rt, block)
	if unsup {
		return false
	}
	xf, xok := vOXnetBlock(xd, block)
	if lenient {
		return false // known, documented divergence of x/net from the RFC
	}
	if rok != xok {
		t.Fatalf("prefix %x block %x limit %d: reference accepts=%v, x/net accepts=%v", prefix, block, limit, rok, xok)
	}
	if !rok {
		return true
	}
	if fmt.Sprint(rf) != fmt.Sprint(xf) {
		t.Fatalf("prefix %x block %x: reference fields %q, x/net fields %q", prefix, block, rf, xf)
	}
	var rtab []vOField
	for i := range rt.ents {
		rtab = append(rtab, vOField{vORefName(&rt.ents[i]), vORefValue(&rt.ents[i]), false})
	}
	xtab := vOTableProbe(xd, len(rt.ents)+1)
	if fmt.Sprint(rtab) != fmt.Sprint(xtab) {
		t.Fatalf("prefix %x block %x: reference table %q, x/net table %q", prefix, block, rtab, xtab)
	}
	return true
}

func TestVerifOracleHpack(t *testing.T) {
	prefixes := [][]byte{
		nil,
		{0x40, 0x01, 'a', 0x01, 'b'},
		{0x40, 0x01, 'a', 0x01, 'b', 0x40, 0x02, 'c', 'd', 0x00},
	}
	n := 0
	for _, limit := range []uint32{4096, 70, 0} {
		for _, p := range prefixes {
			if limit < 70 && p != nil {
				continue
			}
			// every block of 0, 1 and 2 bytes
			if vOCompareBlock(t, p, nil, limit) {
				n++
			}
			for a := 0; a < 256; a++ {
				if vOCompareBlock(t, p, []byte{byte(a)}, limit) {
					n++
				}
				for b := 0; b < 256; b++ {
					if vOCompareBlock(t, p, []byte{byte(a), byte(b)}, limit) {
						n++
					}
				}
			}
		}
	}
	// longer blocks, drawn with a bias towards structure bytes
	rng := rand.New(rand.NewSource(20260923))
	pick := []byte{0x00, 0x01, 0x02, 0x0f, 0x10, 0x1f, 0x20, 0x21, 0x3f, 0x40, 0x41, 0x7e, 0x7f, 0x80, 0x81, 0xbe, 0xbf, 0xc0, 0xfe, 0xff, 'a', 'b', 0x82, 0x87}
	for i := 0; i < 400000; i++ {
		l := 3 + rng.Intn(8)
		blk := make([]byte, l)
		for j := range blk {
			if rng.Intn(3) == 0 {
				blk[j] = byte(rng.Intn(256))
			} else {
				blk[j] = pick[rng.Intn(len(pick))]
			}
		}
		limit := []uint32{4096, 70, 40}[rng.Intn(3)]
		p := prefixes[rng.Intn(3)]
		if limit < 70 {
			p = nil
		}
		if vOCompareBlock(t, p, blk, limit) {
			n++
		}
	}
	fmt.Printf("VERIF-ORACLE hpack blocks compared=%d\n", n)
}

func TestVerifOracleHuffman(t *testing.T) {
	n := 0
	cmp := func(in []byte) {
		out, cnt, ok := refHuffDecode(in)
		var w bytes.Buffer
		_, err := hpack.HuffmanDecode(&w, in)
		if ok != (err == nil) {
			t.Fatalf("huffman %x: reference accepts=%v, x/net err=%v", in, ok, err)
		}
		if ok && !bytes.Equal(out[:cnt], w.Bytes()) {
			t.Fatalf("huffman %x: reference %q, x/net %q", in, out[:cnt], w.Bytes())
		}
		n++
	}
	cmp(nil)
	for a := 0; a < 256; a++ {
		cmp([]byte{byte(a)})
		for b := 0; b < 256; b++ {
			cmp([]byte{byte(a), byte(b)})
		}
	}
	rng := rand.New(rand.NewSource(7541))
	for i := 0; i < 2000000; i++ {
		l := 3 + rng.Intn(6)
		in := make([]byte, l)
		for j := range in {
			in[j] = byte(rng.Intn(256))
		}
		if rng.Intn(2) == 0 {
			// a valid encoding with its padding disturbed or not
			s := make([]byte, 1+rng.Intn(4))
			for j := range s {
				s[j] = byte(rng.Intn(256))
			}
			in = hpack.AppendHuffmanString(nil, string(s))
			if len(in) > 8 {
				continue
			}
			if rng.Intn(4) == 0 {
				in[len(in)-1] ^= byte(1 << uint(rng.Intn(8)))
			}
		}
		cmp(in)
	}
	// encoder: every string of 0..2 symbols, and random ones of 3..4
	enc := func(s []byte) {
		out, k := refHuffEncode(s)
		want := hpack.AppendHuffmanString(nil, string(s))
		if !bytes.Equal(out[:k], want) {
			t.Fatalf("huffman encode %x: reference %x, x/net %x", s, out[:k], want)
		}
		n++
	}
	enc(nil)
	for a := 0; a < 256; a++ {
		enc([]byte{byte(a)})
		for b := 0; b < 256; b++ {
			enc([]byte{byte(a), byte(b)})
		}
	}
	for i := 0; i < 500000; i++ {
		s := make([]byte, 3+rng.Intn(2))
		for j := range s {
			s[j] = byte(rng.Intn(256))
		}
		enc(s)
	}
	fmt.Printf("VERIF-ORACLE huffman cases compared=%d\n", n)
}
