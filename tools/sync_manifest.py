#!/usr/bin/env python3
"""Rebuilds each check's level_note in MANIFEST.json from props_meta.json
(bounds, outside); the 'Trusted base:' tail of the existing note is kept."""
import json, os
here = os.path.dirname(os.path.dirname(os.path.abspath(__file__)))
m = json.load(open(os.path.join(here, "MANIFEST.json")))
meta = json.load(open(os.path.join(here, "props_meta.json")))
for c in m["checks"]:
    pm = meta.get(c["property_id"])
    if not pm:
        continue
    old = c.get("level_note", "")
    i = old.find("Trusted base:")
    tail = old[i:] if i >= 0 else "Trusted base: the gosmt SSA executor (validated by native replay of every model), z3 5.1.0/4.8.12 and cvc5 1.0, the reference models in /verif/harness."
    c["level_note"] = "Bounds: %s Outside: %s %s" % (pm["bounds"].rstrip(), pm["outside"].rstrip().rstrip(".") + ".", tail)
json.dump(m, open(os.path.join(here, "MANIFEST.json"), "w"), indent=1)
print("synced", len(m["checks"]), "checks")
