package smt

import (
	"bufio"
	"fmt"
	"io"
	"os"
	"os/exec"
	"sort"
	"strconv"
	"strings"
	"time"
)

type Result int

const (
	Unsat Result = iota
	Sat
	Unknown
)

func (r Result) String() string {
	return [...]string{"unsat", "sat", "unknown"}[r]
}

// Backend describes one solver command line.
type Backend struct {
	Name string
	Argv []string
}

var (
	Z3Old = Backend{"z3-4.8.12", []string{"/usr/bin/z3", "-in"}}
	Z3New = Backend{"z3-5.1.0", []string{"z3-new", "-in"}}
	CVC5  = Backend{"cvc5-1.0", []string{"/usr/bin/cvc5", "--incremental", "--produce-models", "--lang=smt2"}}
	// CVC5Int turns bit-vector arithmetic into integer arithmetic, which decides
	// multiplication-by-constant chains that bit-blasting does not finish.
	CVC5Int = Backend{"cvc5-1.0-bvint", []string{"/usr/bin/cvc5", "--incremental", "--produce-models", "--lang=smt2", "--solve-bv-as-int=sum"}}
)

type proc struct {
	be      Backend
	cmd     *exec.Cmd
	in      io.WriteCloser
	out     *bufio.Reader
	defined map[int]bool
	ndef    int
	broken  bool
	hdr     string
}

// Stats are cumulative per Solver.
type Stats struct {
	Queries   int
	Sat       int
	Unsat     int
	Unknown   int
	CacheHits int
	Errors    int
	Time      time.Duration
	PerBE     map[string]*BEStats
	Restarts  int
	CrossOK   int
	CrossBad  int
}

type BEStats struct {
	Queries int
	Time    time.Duration
	Unknown int
}

// Solver multiplexes queries over a portfolio of persistent solver processes.
type Solver struct {
	ctx       *Ctx
	backends  []Backend
	procs     map[string]*proc
	TimeoutMS int
	cache     map[string]Result
	Stats     Stats
	Log       io.Writer
	// CrossEvery, when >0, re-asks every n-th unsat query of the second backend.
	CrossEvery int
	nunsat     int
	// DumpDir, when set, receives a standalone SMT-LIB script for every query
	// slower than DumpSlowMS.
	CrossTimeoutMS int
	DumpDir    string
	DumpSlowMS int
	ndump      int
}

// Script renders a standalone SMT-LIB2 script for the conjunction of asserts.
func Script(asserts []*Term) string {
	p := &proc{defined: map[int]bool{}}
	var b strings.Builder
	p.defs(&b, asserts)
	for _, a := range asserts {
		if !a.IsTrue() {
			fmt.Fprintf(&b, "(assert %s)\n", a.ref())
		}
	}
	b.WriteString("(check-sat)\n")
	return b.String()
}

func NewSolver(ctx *Ctx, backends ...Backend) *Solver {
	if len(backends) == 0 {
		backends = []Backend{Z3New, Z3Old, CVC5}
	}
	return &Solver{ctx: ctx, backends: backends, procs: map[string]*proc{}, TimeoutMS: 20000, CrossTimeoutMS: 3000,
		cache: map[string]Result{}, Stats: Stats{PerBE: map[string]*BEStats{}}}
}

func (s *Solver) Close() {
	for _, p := range s.procs {
		p.kill()
	}
	s.procs = map[string]*proc{}
}

func (p *proc) kill() {
	if p.cmd != nil && p.cmd.Process != nil {
		_ = p.in.Close()
		_ = p.cmd.Process.Kill()
		_, _ = p.cmd.Process.Wait()
	}
	p.cmd = nil
}

func (s *Solver) start(be Backend) (*proc, error) {
	argv := append([]string(nil), be.Argv...)
	cmd := exec.Command(argv[0], argv[1:]...)
	in, err := cmd.StdinPipe()
	if err != nil {
		return nil, err
	}
	out, err := cmd.StdoutPipe()
	if err != nil {
		return nil, err
	}
	cmd.Stderr = os.Stderr
	if err := cmd.Start(); err != nil {
		return nil, err
	}
	p := &proc{be: be, cmd: cmd, in: in, out: bufio.NewReaderSize(out, 1<<16), defined: map[int]bool{}}
	hdr := "(set-option :print-success false)\n(set-option :produce-models true)\n"
	if strings.HasPrefix(be.Name, "cvc5") {
		hdr += "(set-logic ALL)\n"
	}
	p.hdr = hdr
	return p, nil
}

func (s *Solver) get(be Backend) (*proc, error) {
	p := s.procs[be.Name]
	if p != nil && (p.broken || p.ndef > 50000000) {
		p.kill()
		p = nil
		s.Stats.Restarts++
	}
	if p == nil {
		var err error
		p, err = s.start(be)
		if err != nil {
			return nil, err
		}
		s.procs[be.Name] = p
	}
	return p, nil
}

// defs emits definitions for every not-yet-defined subterm of the roots.
func (p *proc) defs(b *strings.Builder, roots []*Term) {
	type fr struct {
		t *Term
		i int
	}
	var stack []fr
	for _, r := range roots {
		if r.Op == OpConst || p.defined[r.ID] {
			continue
		}
		stack = append(stack, fr{r, 0})
		for len(stack) > 0 {
			top := &stack[len(stack)-1]
			t := top.t
			if p.defined[t.ID] {
				stack = stack[:len(stack)-1]
				continue
			}
			if top.i < t.N {
				a := t.Args[top.i]
				top.i++
				if a.Op != OpConst && !p.defined[a.ID] {
					stack = append(stack, fr{a, 0})
				}
				continue
			}
			if t.Op == OpVar {
				fmt.Fprintf(b, "(declare-const %s %s)\n", t.Name, SortStr(t.W))
			} else {
				fmt.Fprintf(b, "(define-fun t%d () %s %s)\n", t.ID, SortStr(t.W), t.Body())
			}
			p.defined[t.ID] = true
			p.ndef++
			stack = stack[:len(stack)-1]
		}
	}
}

func (p *proc) readLine() (string, error) {
	for {
		l, err := p.out.ReadString('\n')
		if err != nil {
			return "", err
		}
		l = strings.TrimSpace(l)
		if l != "" {
			return l, nil
		}
	}
}

// readSexp reads one balanced s-expression (possibly multi-line).
func (p *proc) readSexp() (string, error) {
	var b strings.Builder
	depth := 0
	started := false
	for {
		l, err := p.out.ReadString('\n')
		if err != nil {
			return b.String(), err
		}
		for _, ch := range l {
			if ch == '(' {
				depth++
				started = true
			} else if ch == ')' {
				depth--
			}
		}
		b.WriteString(l)
		if started && depth <= 0 {
			return b.String(), nil
		}
		if !started && strings.TrimSpace(l) != "" {
			return b.String(), nil
		}
	}
}

func cacheKey(asserts []*Term) string {
	ids := make([]int, 0, len(asserts))
	seen := map[int]bool{}
	for _, a := range asserts {
		if a.IsTrue() || seen[a.ID] {
			continue
		}
		seen[a.ID] = true
		ids = append(ids, a.ID)
	}
	sort.Ints(ids)
	var b strings.Builder
	for _, i := range ids {
		b.WriteString(strconv.Itoa(i))
		b.WriteByte(',')
	}
	return b.String()
}

// Check decides satisfiability of the conjunction of asserts. When want is
// non-empty and the answer is sat, the values of those terms are returned.
func (s *Solver) Check(asserts []*Term, want []*Term) (Result, map[*Term]uint64) {
	for _, a := range asserts {
		if a.IsFalse() {
			return Unsat, nil
		}
	}
	key := cacheKey(asserts)
	if len(want) == 0 {
		if r, ok := s.cache[key]; ok {
			s.Stats.CacheHits++
			return r, nil
		}
	}
	s.Stats.Queries++
	t0 := time.Now()
	var res Result = Unknown
	var model map[*Term]uint64
	for i, be := range s.backends {
		r, m, err := s.checkOn(be, asserts, want, s.TimeoutMS)
		if err != nil {
			s.Stats.Errors++
			if s.Log != nil {
				fmt.Fprintf(s.Log, "solver %s error: %v\n", be.Name, err)
			}
			continue
		}
		if r != Unknown {
			res, model = r, m
			if r == Unsat && s.CrossEvery > 0 && i+1 < len(s.backends) {
				s.nunsat++
				if s.nunsat%s.CrossEvery == 0 {
					r2, _, err2 := s.checkOn(s.backends[i+1], asserts, nil, s.CrossTimeoutMS)
					if err2 == nil && r2 == Sat {
						s.Stats.CrossBad++
					} else if err2 == nil && r2 == Unsat {
						s.Stats.CrossOK++
					}
				}
			}
			break
		}
	}
	s.Stats.Time += time.Since(t0)
	if s.DumpDir != "" && time.Since(t0) > time.Duration(s.DumpSlowMS)*time.Millisecond {
		s.ndump++
		_ = os.WriteFile(fmt.Sprintf("%s/q%04d-%s-%dms.smt2", s.DumpDir, s.ndump, res, time.Since(t0).Milliseconds()), []byte(Script(asserts)), 0o644)
	}
	switch res {
	case Sat:
		s.Stats.Sat++
	case Unsat:
		s.Stats.Unsat++
	default:
		s.Stats.Unknown++
	}
	if res != Unknown {
		s.cache[key] = res
	}
	return res, model
}

func (s *Solver) checkOn(be Backend, asserts []*Term, want []*Term, timeoutMS int) (Result, map[*Term]uint64, error) {
	p, err := s.get(be)
	if err != nil {
		return Unknown, nil, err
	}
	bs := s.Stats.PerBE[be.Name]
	if bs == nil {
		bs = &BEStats{}
		s.Stats.PerBE[be.Name] = bs
	}
	bs.Queries++
	t0 := time.Now()
	defer func() { bs.Time += time.Since(t0) }()

	// Every query is a standalone script followed by (reset): the solvers'
	// one-shot pipelines (preprocessing + bit-blasting) are far faster on these
	// queries than their incremental push/pop cores.
	var b strings.Builder
	p.defined = map[int]bool{}
	b.WriteString(p.hdr)
	if strings.HasPrefix(be.Name, "z3") {
		fmt.Fprintf(&b, "(set-option :timeout %d)\n", timeoutMS)
	} else {
		fmt.Fprintf(&b, "(set-option :tlimit-per %d)\n", timeoutMS)
	}
	p.defs(&b, asserts)
	p.defs(&b, want)
	for _, a := range asserts {
		if a.IsTrue() {
			continue
		}
		fmt.Fprintf(&b, "(assert %s)\n", a.ref())
	}
	b.WriteString("(check-sat)\n")
	script := b.String()

	type outcome struct {
		res   Result
		model map[*Term]uint64
		err   error
	}
	ch := make(chan outcome, 1)
	// The whole exchange (write, read, get-value) runs beside a hard deadline:
	// a solver that ignores its own soft timeout, or stops reading its input,
	// is killed, which also unblocks the exchange.
	go func() {
		res, model, err := p.exchange(script, want)
		ch <- outcome{res, model, err}
	}()
	select {
	case o := <-ch:
		if o.err != nil {
			p.broken = true
			p.kill()
			return Unknown, nil, o.err
		}
		if o.res == Unknown {
			bs.Unknown++
		}
		return o.res, o.model, nil
	case <-time.After(time.Duration(timeoutMS+5000) * time.Millisecond):
		p.broken = true
		p.kill()
		<-ch
		bs.Unknown++
		return Unknown, nil, nil
	}
}

func (p *proc) exchange(script string, want []*Term) (Result, map[*Term]uint64, error) {
	if _, err := io.WriteString(p.in, script); err != nil {
		return Unknown, nil, err
	}
	line, err := p.readLine()
	if err != nil {
		return Unknown, nil, err
	}
	var res Result
	switch {
	case line == "sat":
		res = Sat
	case line == "unsat":
		res = Unsat
	case line == "unknown" || line == "timeout":
		res = Unknown
	default:
		// includes "(error ...": inconclusive; the process is restarted
		return Unknown, nil, fmt.Errorf("unexpected solver output: %s", line)
	}
	var model map[*Term]uint64
	if res == Sat && len(want) > 0 {
		var q strings.Builder
		q.WriteString("(get-value (")
		for _, w := range want {
			q.WriteString(w.ref())
			q.WriteByte(' ')
		}
		q.WriteString("))\n")
		if _, err := io.WriteString(p.in, q.String()); err != nil {
			return Unknown, nil, err
		}
		sx, err := p.readSexp()
		if err != nil {
			return Unknown, nil, err
		}
		if strings.Contains(sx, "(error") {
			return Unknown, nil, fmt.Errorf("get-value: %s", sx)
		}
		vals, err := parseValues(sx, len(want))
		if err != nil {
			return Unknown, nil, err
		}
		model = map[*Term]uint64{}
		for i, w := range want {
			model[w] = vals[i]
		}
	}
	if _, err := io.WriteString(p.in, "(reset)\n"); err != nil {
		return Unknown, nil, err
	}
	return res, model, nil
}

// parseValues extracts the value literals from "((name val) (name val) ...)".
func parseValues(s string, n int) ([]uint64, error) {
	toks := tokenize(s)
	// structure: ( ( ref val ) ( ref val ) ... ) where ref/val may be nested
	pos := 0
	next := func() string {
		if pos < len(toks) {
			pos++
			return toks[pos-1]
		}
		return ""
	}
	skip := func() []string { // reads one s-expr, returns its tokens
		start := pos
		if next() == "(" {
			d := 1
			for d > 0 && pos < len(toks) {
				switch next() {
				case "(":
					d++
				case ")":
					d--
				}
			}
		}
		return toks[start:pos]
	}
	if next() != "(" {
		return nil, fmt.Errorf("bad get-value reply: %s", s)
	}
	var out []uint64
	for i := 0; i < n; i++ {
		if next() != "(" {
			return nil, fmt.Errorf("bad get-value reply (pair %d): %s", i, s)
		}
		skip() // the reference
		vt := skip()
		v, err := parseLit(vt)
		if err != nil {
			return nil, err
		}
		out = append(out, v)
		if next() != ")" {
			return nil, fmt.Errorf("bad get-value reply (close %d): %s", i, s)
		}
	}
	return out, nil
}

func tokenize(s string) []string {
	var toks []string
	cur := strings.Builder{}
	flush := func() {
		if cur.Len() > 0 {
			toks = append(toks, cur.String())
			cur.Reset()
		}
	}
	for _, ch := range s {
		switch ch {
		case '(', ')':
			flush()
			toks = append(toks, string(ch))
		case ' ', '\n', '\t', '\r':
			flush()
		default:
			cur.WriteRune(ch)
		}
	}
	flush()
	return toks
}

func parseLit(t []string) (uint64, error) {
	if len(t) == 1 {
		x := t[0]
		switch {
		case x == "true":
			return 1, nil
		case x == "false":
			return 0, nil
		case strings.HasPrefix(x, "#x"):
			return strconv.ParseUint(x[2:], 16, 64)
		case strings.HasPrefix(x, "#b"):
			return strconv.ParseUint(x[2:], 2, 64)
		}
	}
	// (_ bvN w)
	if len(t) == 5 && t[0] == "(" && t[1] == "_" && strings.HasPrefix(t[2], "bv") {
		return strconv.ParseUint(t[2][2:], 10, 64)
	}
	return 0, fmt.Errorf("cannot parse literal %v", t)
}
