// Package smt holds the hash-consed term DAG, the local simplifier and the
// SMT-LIB2 printer used by the symbolic executor.
package smt

import (
	"fmt"
	"math/bits"
	"strings"
)

type Op uint8

const (
	OpConst Op = iota // bit-vector constant (W>0) or boolean constant (W==0)
	OpVar
	OpNot
	OpAnd
	OpOr
	OpEq
	OpIte
	OpAdd
	OpSub
	OpMul
	OpUDiv
	OpURem
	OpSDiv
	OpSRem
	OpBAnd
	OpBOr
	OpBXor
	OpBNot
	OpNeg
	OpShl
	OpLShr
	OpAShr
	OpUlt
	OpUle
	OpSlt
	OpSle
	OpConcat
	OpExtract // Aux=hi, Aux2=lo
	OpZExt    // W = target width
	OpSExt
	OpSelect // array read: args (array, index)
	OpStore  // array write: args (array, index, value)
)

var opName = [...]string{
	OpNot: "not", OpAnd: "and", OpOr: "or", OpEq: "=", OpIte: "ite",
	OpAdd: "bvadd", OpSub: "bvsub", OpMul: "bvmul", OpUDiv: "bvudiv", OpURem: "bvurem",
	OpSDiv: "bvsdiv", OpSRem: "bvsrem", OpBAnd: "bvand", OpBOr: "bvor", OpBXor: "bvxor",
	OpBNot: "bvnot", OpNeg: "bvneg", OpShl: "bvshl", OpLShr: "bvlshr", OpAShr: "bvashr",
	OpUlt: "bvult", OpUle: "bvule", OpSlt: "bvslt", OpSle: "bvsle", OpConcat: "concat",
	OpSelect: "select", OpStore: "store",
}

// ArrW is the pseudo width of the (Array (_ BitVec 64) (_ BitVec 8)) sort.
const ArrW = -1

// Term is an immutable, hash-consed SMT term. W is the bit width, 0 for Bool,
// ArrW for byte arrays.
type Term struct {
	Op   Op
	W    int
	Args [3]*Term
	N    int // number of args
	Val  uint64
	Aux  int
	Aux2 int
	Name string
	ID   int
}

type key struct {
	op         Op
	w          int
	a0, a1, a2 int
	val        uint64
	aux, aux2  int
	name       string
}

// Ctx owns a term table. It is not safe for concurrent use.
type Ctx struct {
	tab    map[key]*Term
	terms  []*Term
	nvar   int
	True   *Term
	False  *Term
	NoSimp bool
}

func NewCtx() *Ctx {
	c := &Ctx{tab: map[key]*Term{}}
	c.True = c.mk(OpConst, 0, 1, 0, 0, "")
	c.False = c.mk(OpConst, 0, 0, 0, 0, "")
	return c
}

func (c *Ctx) NumTerms() int { return len(c.terms) }

func id(t *Term) int {
	if t == nil {
		return -1
	}
	return t.ID
}

func (c *Ctx) mk(op Op, w int, val uint64, aux, aux2 int, name string, args ...*Term) *Term {
	k := key{op: op, w: w, val: val, aux: aux, aux2: aux2, name: name, a0: -1, a1: -1, a2: -1}
	if len(args) > 0 {
		k.a0 = args[0].ID
	}
	if len(args) > 1 {
		k.a1 = args[1].ID
	}
	if len(args) > 2 {
		k.a2 = args[2].ID
	}
	if t, ok := c.tab[k]; ok {
		return t
	}
	t := &Term{Op: op, W: w, Val: val, Aux: aux, Aux2: aux2, Name: name, N: len(args), ID: len(c.terms)}
	copy(t.Args[:], args)
	c.tab[k] = t
	c.terms = append(c.terms, t)
	return t
}

func mask(w int) uint64 {
	if w >= 64 {
		return ^uint64(0)
	}
	return (uint64(1) << uint(w)) - 1
}

func sext(v uint64, w int) int64 {
	if w >= 64 {
		return int64(v)
	}
	sh := uint(64 - w)
	return int64(v<<sh) >> sh
}

// ---- constructors ----

func (c *Ctx) Const(w int, v uint64) *Term {
	if w == 0 {
		if v != 0 {
			return c.True
		}
		return c.False
	}
	return c.mk(OpConst, w, v&mask(w), 0, 0, "")
}

func (c *Ctx) Bool(b bool) *Term {
	if b {
		return c.True
	}
	return c.False
}

// Var makes a fresh variable whose name starts with prefix.
func (c *Ctx) Var(prefix string, w int) *Term {
	c.nvar++
	name := fmt.Sprintf("%s!%d", sanitize(prefix), c.nvar)
	return c.mk(OpVar, w, 0, 0, 0, name)
}

func sanitize(s string) string {
	var b strings.Builder
	for _, r := range s {
		switch {
		case r >= 'a' && r <= 'z', r >= 'A' && r <= 'Z', r >= '0' && r <= '9', r == '_', r == '.':
			b.WriteRune(r)
		default:
			b.WriteByte('_')
		}
	}
	if b.Len() == 0 {
		return "v"
	}
	return b.String()
}

func (t *Term) IsConst() bool { return t.Op == OpConst }
func (t *Term) IsTrue() bool  { return t.Op == OpConst && t.W == 0 && t.Val == 1 }
func (t *Term) IsFalse() bool { return t.Op == OpConst && t.W == 0 && t.Val == 0 }

// SVal returns the constant interpreted as a signed integer.
func (t *Term) SVal() int64 { return sext(t.Val, t.W) }

func (c *Ctx) Not(a *Term) *Term {
	if a.W != 0 {
		panic("Not on non-bool")
	}
	if a.IsConst() {
		return c.Bool(a.Val == 0)
	}
	if a.Op == OpNot {
		return a.Args[0]
	}
	if !c.NoSimp && a.Op == OpIte && a.Args[1].IsConst() && a.Args[2].IsConst() {
		return c.Ite(a.Args[0], c.Not(a.Args[1]), c.Not(a.Args[2]))
	}
	return c.mk(OpNot, 0, 0, 0, 0, "", a)
}

func (c *Ctx) And(a, b *Term) *Term {
	if a.IsConst() {
		if a.Val == 0 {
			return c.False
		}
		return b
	}
	if b.IsConst() {
		if b.Val == 0 {
			return c.False
		}
		return a
	}
	if a == b {
		return a
	}
	if (a.Op == OpNot && a.Args[0] == b) || (b.Op == OpNot && b.Args[0] == a) {
		return c.False
	}
	if a.ID > b.ID {
		a, b = b, a
	}
	return c.mk(OpAnd, 0, 0, 0, 0, "", a, b)
}

func (c *Ctx) Or(a, b *Term) *Term {
	if a.IsConst() {
		if a.Val != 0 {
			return c.True
		}
		return b
	}
	if b.IsConst() {
		if b.Val != 0 {
			return c.True
		}
		return a
	}
	if a == b {
		return a
	}
	if (a.Op == OpNot && a.Args[0] == b) || (b.Op == OpNot && b.Args[0] == a) {
		return c.True
	}
	if a.ID > b.ID {
		a, b = b, a
	}
	return c.mk(OpOr, 0, 0, 0, 0, "", a, b)
}

func (c *Ctx) Implies(a, b *Term) *Term { return c.Or(c.Not(a), b) }

// constLeaves reports whether t is a constant or an ite tree with only constant
// leaves, with at most max leaves.
func constLeaves(t *Term, max *int) bool {
	if t.IsConst() {
		*max--
		return *max >= 0
	}
	if t.Op == OpIte {
		return constLeaves(t.Args[1], max) && constLeaves(t.Args[2], max)
	}
	return false
}

func isConstTree(t *Term) bool {
	if t.Op != OpIte {
		return false
	}
	n := 600
	return constLeaves(t, &n)
}

// mapLeaves applies f to each constant leaf of an ite tree.
func (c *Ctx) mapLeaves(t *Term, f func(*Term) *Term, memo map[*Term]*Term) *Term {
	if t.IsConst() {
		return f(t)
	}
	if r, ok := memo[t]; ok {
		return r
	}
	r := c.Ite(t.Args[0], c.mapLeaves(t.Args[1], f, memo), c.mapLeaves(t.Args[2], f, memo))
	memo[t] = r
	return r
}

func (c *Ctx) Ite(g, a, b *Term) *Term {
	if g.W != 0 {
		panic("ite guard not bool")
	}
	if a.W != b.W {
		panic(fmt.Sprintf("ite width mismatch %d %d", a.W, b.W))
	}
	if g.IsConst() {
		if g.Val != 0 {
			return a
		}
		return b
	}
	if a == b {
		return a
	}
	if g.Op == OpNot {
		return c.Ite(g.Args[0], b, a)
	}
	if a.W == 0 {
		if a.IsConst() && b.IsConst() {
			if a.Val != 0 {
				return g
			}
			return c.Not(g)
		}
		if a.IsTrue() {
			return c.Or(g, b)
		}
		if a.IsFalse() {
			return c.And(c.Not(g), b)
		}
		if b.IsTrue() {
			return c.Or(c.Not(g), a)
		}
		if b.IsFalse() {
			return c.And(g, a)
		}
	}
	// ite(g, x, ite(g, y, z)) = ite(g, x, z)
	if b.Op == OpIte && b.Args[0] == g {
		return c.Ite(g, a, b.Args[2])
	}
	if a.Op == OpIte && a.Args[0] == g {
		return c.Ite(g, a.Args[1], b)
	}
	// ite(g1, x, ite(g2, x, y)) = ite(g1|g2, x, y)
	if b.Op == OpIte && b.Args[1] == a {
		return c.Ite(c.Or(g, b.Args[0]), a, b.Args[2])
	}
	return c.mk(OpIte, a.W, 0, 0, 0, "", g, a, b)
}

func (c *Ctx) Eq(a, b *Term) *Term {
	if a.W != b.W {
		panic(fmt.Sprintf("eq width mismatch %d %d", a.W, b.W))
	}
	if a == b {
		return c.True
	}
	if a.IsConst() && b.IsConst() {
		return c.Bool(a.Val == b.Val)
	}
	if a.W == 0 {
		if a.IsConst() {
			a, b = b, a
		}
		if b.IsConst() {
			if b.Val != 0 {
				return a
			}
			return c.Not(a)
		}
	}
	if !c.NoSimp {
		if b.IsConst() && isConstTree(a) {
			return c.mapLeaves(a, func(l *Term) *Term { return c.Bool(l.Val == b.Val) }, map[*Term]*Term{})
		}
		if a.IsConst() && isConstTree(b) {
			return c.mapLeaves(b, func(l *Term) *Term { return c.Bool(l.Val == a.Val) }, map[*Term]*Term{})
		}
		// zext(x) == const
		if b.IsConst() && a.Op == OpZExt {
			iw := a.Args[0].W
			if b.Val > mask(iw) {
				return c.False
			}
			return c.Eq(a.Args[0], c.Const(iw, b.Val))
		}
		if a.IsConst() && b.Op == OpZExt {
			return c.Eq(b, a)
		}
	}
	if a.ID > b.ID {
		a, b = b, a
	}
	return c.mk(OpEq, 0, 0, 0, 0, "", a, b)
}

func (c *Ctx) Ne(a, b *Term) *Term { return c.Not(c.Eq(a, b)) }

func foldBin(op Op, w int, x, y uint64) (uint64, bool) {
	m := mask(w)
	switch op {
	case OpAdd:
		return (x + y) & m, true
	case OpSub:
		return (x - y) & m, true
	case OpMul:
		return (x * y) & m, true
	case OpUDiv:
		if y == 0 {
			return m, true
		}
		return x / y, true
	case OpURem:
		if y == 0 {
			return x, true
		}
		return x % y, true
	case OpSDiv:
		sx, sy := sext(x, w), sext(y, w)
		if sy == 0 {
			if sx < 0 {
				return 1, true
			}
			return m, true
		}
		if sy == -1 {
			return uint64(-sx) & m, true
		}
		return uint64(sx/sy) & m, true
	case OpSRem:
		sx, sy := sext(x, w), sext(y, w)
		if sy == 0 {
			return x, true
		}
		if sy == -1 {
			return 0, true
		}
		return uint64(sx%sy) & m, true
	case OpBAnd:
		return x & y, true
	case OpBOr:
		return x | y, true
	case OpBXor:
		return x ^ y, true
	case OpShl:
		if y >= uint64(w) {
			return 0, true
		}
		return (x << y) & m, true
	case OpLShr:
		if y >= uint64(w) {
			return 0, true
		}
		return x >> y, true
	case OpAShr:
		sx := sext(x, w)
		if y >= uint64(w) {
			y = uint64(w - 1)
		}
		return uint64(sx>>y) & m, true
	}
	return 0, false
}

func foldCmp(op Op, w int, x, y uint64) bool {
	switch op {
	case OpUlt:
		return x < y
	case OpUle:
		return x <= y
	case OpSlt:
		return sext(x, w) < sext(y, w)
	case OpSle:
		return sext(x, w) <= sext(y, w)
	}
	panic("foldCmp")
}

func commutative(op Op) bool {
	switch op {
	case OpAdd, OpMul, OpBAnd, OpBOr, OpBXor:
		return true
	}
	return false
}

// Bin builds a binary bit-vector operation with both operands of equal width.
func (c *Ctx) Bin(op Op, a, b *Term) *Term {
	if a.W != b.W || a.W <= 0 {
		panic(fmt.Sprintf("bin %s width mismatch %d %d", opName[op], a.W, b.W))
	}
	w := a.W
	if a.IsConst() && b.IsConst() {
		v, ok := foldBin(op, w, a.Val, b.Val)
		if ok {
			return c.Const(w, v)
		}
	}
	if c.NoSimp {
		return c.mk(op, w, 0, 0, 0, "", a, b)
	}
	if commutative(op) && a.IsConst() {
		a, b = b, a
	}
	m := mask(w)
	if b.IsConst() {
		switch op {
		case OpAdd, OpSub, OpBOr, OpBXor, OpShl, OpLShr, OpAShr:
			if b.Val == 0 {
				return a
			}
		case OpMul:
			if b.Val == 0 {
				return b
			}
			if b.Val == 1 {
				return a
			}
		case OpBAnd:
			if b.Val == 0 {
				return b
			}
			if b.Val == m {
				return a
			}
		case OpUDiv, OpSDiv:
			if b.Val == 1 {
				return a
			}
		}
		if op == OpBOr && b.Val == m {
			return b
		}
		if (op == OpShl || op == OpLShr) && b.Val >= uint64(w) {
			return c.Const(w, 0)
		}
		if isConstTree(a) {
			return c.mapLeaves(a, func(l *Term) *Term {
				v, _ := foldBin(op, w, l.Val, b.Val)
				return c.Const(w, v)
			}, map[*Term]*Term{})
		}
		// (x + k1) + k2
		if op == OpAdd && a.Op == OpAdd && a.Args[1].IsConst() {
			return c.Bin(OpAdd, a.Args[0], c.Const(w, a.Args[1].Val+b.Val))
		}
		if op == OpSub {
			return c.Bin(OpAdd, a, c.Const(w, -b.Val))
		}
		// and with a low mask of a zero-extended narrower value
		if op == OpBAnd && a.Op == OpZExt && b.Val&mask(a.Args[0].W) == mask(a.Args[0].W) {
			return a
		}
		// and of zext(x) with const: push inside
		if op == OpBAnd && a.Op == OpZExt {
			iw := a.Args[0].W
			return c.ZExt(c.Bin(OpBAnd, a.Args[0], c.Const(iw, b.Val&mask(iw))), w)
		}
		if op == OpBAnd && a.Op == OpBAnd && a.Args[1].IsConst() {
			return c.Bin(OpBAnd, a.Args[0], c.Const(w, a.Args[1].Val&b.Val))
		}
		if op == OpLShr && a.Op == OpZExt && b.Val >= uint64(a.Args[0].W) {
			return c.Const(w, 0)
		}
	}
	if a.IsConst() {
		switch op {
		case OpShl, OpLShr, OpUDiv, OpURem:
			if a.Val == 0 {
				return a
			}
		case OpSub:
			if a.Val == 0 {
				return c.Un(OpNeg, b)
			}
		}
		if isConstTree(b) {
			return c.mapLeaves(b, func(l *Term) *Term {
				v, _ := foldBin(op, w, a.Val, l.Val)
				return c.Const(w, v)
			}, map[*Term]*Term{})
		}
	}
	if a == b {
		switch op {
		case OpSub, OpBXor:
			return c.Const(w, 0)
		case OpBAnd, OpBOr:
			return a
		}
	}
	if commutative(op) && !b.IsConst() && a.ID > b.ID {
		a, b = b, a
	}
	return c.mk(op, w, 0, 0, 0, "", a, b)
}

func (c *Ctx) Add(a, b *Term) *Term { return c.Bin(OpAdd, a, b) }
func (c *Ctx) Sub(a, b *Term) *Term { return c.Bin(OpSub, a, b) }

func (c *Ctx) Un(op Op, a *Term) *Term {
	w := a.W
	if a.IsConst() {
		switch op {
		case OpBNot:
			return c.Const(w, ^a.Val)
		case OpNeg:
			return c.Const(w, -a.Val)
		}
	}
	if a.Op == op {
		return a.Args[0]
	}
	return c.mk(op, w, 0, 0, 0, "", a)
}

// urange returns a cheap unsigned upper bound for t.
func urange(t *Term) uint64 {
	switch t.Op {
	case OpConst:
		return t.Val
	case OpZExt:
		return urange(t.Args[0])
	case OpIte:
		a, b := urange(t.Args[1]), urange(t.Args[2])
		if a > b {
			return a
		}
		return b
	case OpBAnd:
		a, b := urange(t.Args[0]), urange(t.Args[1])
		if a < b {
			return a
		}
		return b
	case OpLShr:
		if t.Args[1].IsConst() && t.Args[1].Val < 64 {
			return urange(t.Args[0]) >> t.Args[1].Val
		}
	case OpURem:
		if t.Args[1].IsConst() && t.Args[1].Val > 0 {
			return t.Args[1].Val - 1
		}
	case OpAdd:
		a, b := urange(t.Args[0]), urange(t.Args[1])
		if s, carry := bits.Add64(a, b, 0); carry == 0 && s <= mask(t.W) {
			return s
		}
	}
	return mask(t.W)
}

func (c *Ctx) Cmp(op Op, a, b *Term) *Term {
	if a.W != b.W || a.W <= 0 {
		panic(fmt.Sprintf("cmp width mismatch %d %d", a.W, b.W))
	}
	if a.IsConst() && b.IsConst() {
		return c.Bool(foldCmp(op, a.W, a.Val, b.Val))
	}
	if a == b {
		return c.Bool(op == OpUle || op == OpSle)
	}
	if c.NoSimp {
		return c.mk(op, 0, 0, 0, 0, "", a, b)
	}
	w := a.W
	if b.IsConst() && isConstTree(a) {
		return c.mapLeaves(a, func(l *Term) *Term { return c.Bool(foldCmp(op, w, l.Val, b.Val)) }, map[*Term]*Term{})
	}
	if a.IsConst() && isConstTree(b) {
		return c.mapLeaves(b, func(l *Term) *Term { return c.Bool(foldCmp(op, w, a.Val, l.Val)) }, map[*Term]*Term{})
	}
	switch op {
	case OpUlt:
		if b.IsConst() && b.Val == 0 {
			return c.False
		}
		if b.IsConst() && urange(a) < b.Val {
			return c.True
		}
		if a.IsConst() && a.Val == mask(w) {
			return c.False
		}
	case OpUle:
		if a.IsConst() && a.Val == 0 {
			return c.True
		}
		if b.IsConst() && urange(a) <= b.Val {
			return c.True
		}
		if b.IsConst() && b.Val == mask(w) {
			return c.True
		}
	case OpSlt, OpSle:
		// signed compare of provably small non-negative values
		ha, hb := urange(a), urange(b)
		lim := mask(w) >> 1
		if ha <= lim && hb <= lim {
			if op == OpSlt {
				return c.Cmp(OpUlt, a, b)
			}
			return c.Cmp(OpUle, a, b)
		}
	}
	return c.mk(op, 0, 0, 0, 0, "", a, b)
}

func (c *Ctx) Extract(a *Term, hi, lo int) *Term {
	if hi < lo || hi >= a.W {
		panic("bad extract")
	}
	w := hi - lo + 1
	if w == a.W {
		return a
	}
	if a.IsConst() {
		return c.Const(w, a.Val>>uint(lo))
	}
	if !c.NoSimp {
		switch a.Op {
		case OpZExt, OpSExt:
			iw := a.Args[0].W
			if hi < iw {
				return c.Extract(a.Args[0], hi, lo)
			}
			if a.Op == OpZExt && lo >= iw {
				return c.Const(w, 0)
			}
			if a.Op == OpZExt && lo == 0 {
				return c.ZExt(a.Args[0], w)
			}
		case OpConcat:
			lw := a.Args[1].W
			if hi < lw {
				return c.Extract(a.Args[1], hi, lo)
			}
			if lo >= lw {
				return c.Extract(a.Args[0], hi-lw, lo-lw)
			}
		case OpExtract:
			return c.Extract(a.Args[0], hi+a.Aux2, lo+a.Aux2)
		case OpIte:
			if isConstTree(a) {
				return c.mapLeaves(a, func(l *Term) *Term { return c.Const(w, l.Val>>uint(lo)) }, map[*Term]*Term{})
			}
		case OpBAnd, OpBOr, OpBXor:
			if lo == 0 {
				return c.Bin(a.Op, c.Extract(a.Args[0], hi, 0), c.Extract(a.Args[1], hi, 0))
			}
		case OpAdd, OpSub, OpMul:
			if lo == 0 {
				return c.Bin(a.Op, c.Extract(a.Args[0], hi, 0), c.Extract(a.Args[1], hi, 0))
			}
		}
	}
	return c.mk(OpExtract, w, 0, hi, lo, "", a)
}

func (c *Ctx) ZExt(a *Term, w int) *Term {
	if w == a.W {
		return a
	}
	if w < a.W {
		return c.Extract(a, w-1, 0)
	}
	if a.IsConst() {
		return c.Const(w, a.Val)
	}
	if !c.NoSimp {
		if a.Op == OpZExt {
			return c.ZExt(a.Args[0], w)
		}
		if isConstTree(a) {
			return c.mapLeaves(a, func(l *Term) *Term { return c.Const(w, l.Val) }, map[*Term]*Term{})
		}
	}
	return c.mk(OpZExt, w, 0, 0, 0, "", a)
}

func (c *Ctx) SExt(a *Term, w int) *Term {
	if w == a.W {
		return a
	}
	if w < a.W {
		return c.Extract(a, w-1, 0)
	}
	if a.IsConst() {
		return c.Const(w, uint64(sext(a.Val, a.W)))
	}
	if !c.NoSimp {
		if a.Op == OpZExt {
			return c.ZExt(a.Args[0], w)
		}
		if isConstTree(a) {
			aw := a.W
			return c.mapLeaves(a, func(l *Term) *Term { return c.Const(w, uint64(sext(l.Val, aw))) }, map[*Term]*Term{})
		}
	}
	return c.mk(OpSExt, w, 0, 0, 0, "", a)
}

func (c *Ctx) Concat(hi, lo *Term) *Term {
	w := hi.W + lo.W
	if w > 64 {
		panic("concat wider than 64")
	}
	if hi.IsConst() && lo.IsConst() {
		return c.Const(w, hi.Val<<uint(lo.W)|lo.Val)
	}
	if hi.IsConst() && hi.Val == 0 {
		return c.ZExt(lo, w)
	}
	return c.mk(OpConcat, w, 0, 0, 0, "", hi, lo)
}

// ---- arrays (Array (_ BitVec 64) (_ BitVec 8)) ----

func (c *Ctx) ArrVar(prefix string) *Term {
	c.nvar++
	return c.mk(OpVar, ArrW, 0, 0, 0, fmt.Sprintf("%s!%d", sanitize(prefix), c.nvar))
}

func (c *Ctx) Select(arr, idx *Term) *Term {
	if arr.W != ArrW || idx.W != 64 {
		panic("select sort")
	}
	for arr.Op == OpStore {
		i := arr.Args[1]
		if i == idx {
			return arr.Args[2]
		}
		if i.IsConst() && idx.IsConst() {
			arr = arr.Args[0]
			continue
		}
		break
	}
	return c.mk(OpSelect, 8, 0, 0, 0, "", arr, idx)
}

func (c *Ctx) Store(arr, idx, v *Term) *Term {
	if arr.W != ArrW || idx.W != 64 || v.W != 8 {
		panic("store sort")
	}
	return c.mk(OpStore, ArrW, 0, 0, 0, "", arr, idx, v)
}

// ---- printing ----

func SortStr(w int) string {
	switch {
	case w == 0:
		return "Bool"
	case w == ArrW:
		return "(Array (_ BitVec 64) (_ BitVec 8))"
	}
	return fmt.Sprintf("(_ BitVec %d)", w)
}

func (t *Term) ref() string {
	switch t.Op {
	case OpConst:
		if t.W == 0 {
			if t.Val != 0 {
				return "true"
			}
			return "false"
		}
		if t.W%4 == 0 {
			return fmt.Sprintf("#x%0*x", t.W/4, t.Val)
		}
		return fmt.Sprintf("(_ bv%d %d)", t.Val, t.W)
	case OpVar:
		return t.Name
	}
	return fmt.Sprintf("t%d", t.ID)
}

// Ref is the SMT-LIB name by which the term is referred to.
func (t *Term) Ref() string { return t.ref() }

// Body prints the defining expression of a non-leaf term.
func (t *Term) Body() string {
	switch t.Op {
	case OpExtract:
		return fmt.Sprintf("((_ extract %d %d) %s)", t.Aux, t.Aux2, t.Args[0].ref())
	case OpZExt:
		return fmt.Sprintf("((_ zero_extend %d) %s)", t.W-t.Args[0].W, t.Args[0].ref())
	case OpSExt:
		return fmt.Sprintf("((_ sign_extend %d) %s)", t.W-t.Args[0].W, t.Args[0].ref())
	}
	var b strings.Builder
	b.WriteByte('(')
	b.WriteString(opName[t.Op])
	for i := 0; i < t.N; i++ {
		b.WriteByte(' ')
		b.WriteString(t.Args[i].ref())
	}
	b.WriteByte(')')
	return b.String()
}

// String renders a term inline (for diagnostics only; may be large).
func (t *Term) String() string {
	return t.str(6)
}

func (t *Term) str(depth int) string {
	if t.Op == OpConst || t.Op == OpVar {
		if t.Op == OpConst && t.W > 0 {
			return fmt.Sprintf("%d", t.Val)
		}
		return t.ref()
	}
	if depth == 0 {
		return "…"
	}
	var b strings.Builder
	b.WriteByte('(')
	switch t.Op {
	case OpExtract:
		fmt.Fprintf(&b, "extract[%d:%d]", t.Aux, t.Aux2)
	case OpZExt:
		fmt.Fprintf(&b, "zext%d", t.W)
	case OpSExt:
		fmt.Fprintf(&b, "sext%d", t.W)
	default:
		b.WriteString(opName[t.Op])
	}
	for i := 0; i < t.N; i++ {
		b.WriteByte(' ')
		b.WriteString(t.Args[i].str(depth - 1))
	}
	b.WriteByte(')')
	return b.String()
}

// Eval evaluates a term under an assignment of variables (by name). Missing
// variables evaluate to 0. Arrays are not supported.
func Eval(t *Term, env map[string]uint64, memo map[*Term]uint64) uint64 {
	if v, ok := memo[t]; ok {
		return v
	}
	var r uint64
	a := func(i int) uint64 { return Eval(t.Args[i], env, memo) }
	b2u := func(b bool) uint64 {
		if b {
			return 1
		}
		return 0
	}
	switch t.Op {
	case OpConst:
		r = t.Val
	case OpVar:
		r = env[t.Name] & mask(t.W)
		if t.W == 0 {
			r = env[t.Name] & 1
		}
	case OpNot:
		r = a(0) ^ 1
	case OpAnd:
		r = a(0) & a(1)
	case OpOr:
		r = a(0) | a(1)
	case OpEq:
		r = b2u(a(0) == a(1))
	case OpIte:
		if a(0) != 0 {
			r = a(1)
		} else {
			r = a(2)
		}
	case OpBNot:
		r = ^a(0) & mask(t.W)
	case OpNeg:
		r = -a(0) & mask(t.W)
	case OpUlt, OpUle, OpSlt, OpSle:
		r = b2u(foldCmp(t.Op, t.Args[0].W, a(0), a(1)))
	case OpConcat:
		r = a(0)<<uint(t.Args[1].W) | a(1)
	case OpExtract:
		r = (a(0) >> uint(t.Aux2)) & mask(t.W)
	case OpZExt:
		r = a(0)
	case OpSExt:
		r = uint64(sext(a(0), t.Args[0].W)) & mask(t.W)
	case OpSelect, OpStore:
		panic("Eval: arrays unsupported")
	default:
		r, _ = foldBin(t.Op, t.W, a(0), a(1))
	}
	memo[t] = r
	return r
}
