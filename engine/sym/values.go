// Package sym is the symbolic executor over go/ssa.
package sym

import (
	"fmt"
	"go/types"
	"strings"

	"golang.org/x/tools/go/ssa"

	"verif/engine/smt"
)

// Value is one of: *smt.Term (integers and booleans), *Ptr, *Slice, *Struct,
// *Array, *Str, *Iface, *Func, Tuple, *MapV, *ChanV, *Opaque.
type Value interface{}

type Step struct {
	F   int       // field index when Idx == nil
	Idx *smt.Term // 64-bit array index otherwise
}

// Loc is a location inside a heap object.
type Loc struct {
	Obj  int
	Path []Step
}

func (l *Loc) extend(s Step) *Loc {
	p := make([]Step, len(l.Path)+1)
	copy(p, l.Path)
	p[len(l.Path)] = s
	return &Loc{Obj: l.Obj, Path: p}
}

func (l *Loc) key() string {
	var b strings.Builder
	fmt.Fprintf(&b, "o%d", l.Obj)
	for _, s := range l.Path {
		if s.Idx != nil {
			fmt.Fprintf(&b, "[t%d]", s.Idx.ID)
		} else {
			fmt.Fprintf(&b, ".%d", s.F)
		}
	}
	return b.String()
}

func sameLoc(a, b *Loc) bool {
	if a == nil || b == nil {
		return a == b
	}
	if a.Obj != b.Obj || len(a.Path) != len(b.Path) {
		return false
	}
	for i := range a.Path {
		if a.Path[i].F != b.Path[i].F || a.Path[i].Idx != b.Path[i].Idx {
			return false
		}
	}
	return true
}

type PtrAlt struct {
	G *smt.Term
	L *Loc // nil = nil pointer
}

// Ptr is a guarded set of locations. Guards are mutually exclusive and cover
// the path condition.
type Ptr struct {
	Alts []PtrAlt
}

type Slice struct {
	Base          *Ptr // locations of the backing array value; nil pointer for a nil slice
	Off, Len, Cap *smt.Term
}

type Struct struct {
	T      *types.Struct
	Fields []Value // nil entry = zero value (lazily materialised)
}

// Array is a positional array. Nil elements are zero values. When Abs is
// non-nil the array is abstract: its content is the SMT array Abs and Size its
// (possibly symbolic) length; Elems is unused.
type Array struct {
	Elem  types.Type
	Elems []Value
	Abs   *smt.Term
	Size  *smt.Term
}

// Str is a string: concrete, or a sequence of byte terms, or opaque.
type Str struct {
	S      string
	Bytes  []*smt.Term // when non-nil the string is symbolic with concrete length
	Opaque int         // >0: opaque string identity
}

type IfaceAlt struct {
	G *smt.Term
	T types.Type // nil = nil interface
	V Value
}

type Iface struct {
	Alts []IfaceAlt
}

type Func struct {
	Fn       *ssa.Function
	Builtin  *ssa.Builtin
	Bindings []Value
	// Bound is set for bound-method closures created by the engine.
	Native string
}

type Tuple []Value

type MapV struct{ Obj int } // Obj<0: nil map
type ChanV struct{ Obj int } // Obj<0: nil chan

// Opaque stands for a value of a type the engine does not look into
// (time.Time, *log.Logger, ...).
type Opaque struct {
	T  types.Type
	ID int
}

// MapObj is the content of a map object.
type MapObj struct {
	K, V    types.Type
	Entries []MapEntry
}

type MapEntry struct {
	K, V Value
}

// ChanObj is the content of a channel object.
type ChanObj struct {
	Elem   types.Type
	Cap    int
	Buf    []Value
	Closed bool
	// Never marks timer channels that never become ready.
	Never bool
}

type Object struct {
	Val Value // a Value, *MapObj or *ChanObj
	Typ types.Type
	Tag string
}

func single(l *Loc, c *smt.Ctx) *Ptr { return &Ptr{Alts: []PtrAlt{{G: c.True, L: l}}} }

func (p *Ptr) isNilConst() bool { return len(p.Alts) == 1 && p.Alts[0].L == nil }

func (p *Ptr) soleLoc() *Loc {
	if len(p.Alts) == 1 && p.Alts[0].L != nil {
		return p.Alts[0].L
	}
	return nil
}

// ---- type helpers ----

func under(t types.Type) types.Type { return t.Underlying() }

func intWidth(t types.Type) (w int, signed bool, ok bool) {
	b, isb := under(t).(*types.Basic)
	if !isb {
		return 0, false, false
	}
	switch b.Kind() {
	case types.Bool, types.UntypedBool:
		return 0, false, true
	case types.Int8:
		return 8, true, true
	case types.Int16:
		return 16, true, true
	case types.Int32, types.UntypedRune:
		return 32, true, true
	case types.Int, types.Int64, types.UntypedInt:
		return 64, true, true
	case types.Uint8:
		return 8, false, true
	case types.Uint16:
		return 16, false, true
	case types.Uint32:
		return 32, false, true
	case types.Uint, types.Uint64, types.Uintptr:
		return 64, false, true
	}
	return 0, false, false
}

func isString(t types.Type) bool {
	b, ok := under(t).(*types.Basic)
	return ok && b.Info()&types.IsString != 0
}

func isFloat(t types.Type) bool {
	b, ok := under(t).(*types.Basic)
	return ok && b.Info()&(types.IsFloat|types.IsComplex) != 0
}

func isByteSlice(t types.Type) bool {
	s, ok := under(t).(*types.Slice)
	if !ok {
		return false
	}
	w, _, ok := intWidth(s.Elem())
	return ok && w == 8
}

func deref(t types.Type) types.Type {
	if p, ok := under(t).(*types.Pointer); ok {
		return p.Elem()
	}
	panic(fmt.Sprintf("deref of non-pointer %s", t))
}
