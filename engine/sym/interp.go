package sym

import (
	"fmt"
	"go/constant"
	"go/token"
	"go/types"

	"golang.org/x/tools/go/ssa"

	"verif/engine/smt"
)

func constantBool(k *ssa.Const) bool     { return constant.BoolVal(k.Value) }
func constantString(k *ssa.Const) string { return constant.StringVal(k.Value) }
func constantUint(k *ssa.Const) uint64 {
	v := constant.ToInt(k.Value)
	if u, ok := constant.Uint64Val(v); ok {
		return u
	}
	if i, ok := constant.Int64Val(v); ok {
		return uint64(i)
	}
	panic("constant out of range: " + k.String())
}

// step executes one instruction of the current task.
func (ex *Exec) step(st *State) error {
	t := st.task()
	if t.status != taskRunnable || len(t.frames) == 0 {
		return ex.schedule(st)
	}
	fr := t.top()
	if fr.pc >= len(fr.block.Instrs) {
		return fmt.Errorf("internal: fell off block %d of %s", fr.block.Index, fr.fn.fn)
	}
	in := fr.block.Instrs[fr.pc]
	if ex.cfg.Debug {
		fmt.Printf("[s%d t%d] %s: %s\n", st.id, t.id, fr.fn.fn.Name(), in)
	}
	switch x := in.(type) {
	case *ssa.DebugRef:
		fr.pc++
		return nil
	case *ssa.Jump:
		return ex.jump(st, fr, fr.block.Succs[0])
	case *ssa.If:
		return ex.doIf(st, fr, x)
	case *ssa.Return:
		return ex.doReturn(st, fr, x)
	case *ssa.Panic:
		v, _ := ex.get(st, fr, x.X)
		_, tape := ex.model(st)
		ex.violation(st, "panic", "explicit panic", ex.pos(x), describe(v), tape)
		return errPathEnd
	case *ssa.RunDefers:
		if len(fr.defers) == 0 {
			fr.pc++
			return nil
		}
		d := fr.defers[len(fr.defers)-1]
		fr.defers = fr.defers[:len(fr.defers)-1]
		return ex.callValue(st, d, -1)
	case *ssa.Store:
		return ex.doStore(st, fr, x)
	case *ssa.MapUpdate:
		return ex.doMapUpdate(st, fr, x)
	case *ssa.Send:
		return ex.doSend(st, fr, x)
	case *ssa.Go:
		return ex.doGo(st, fr, x)
	case *ssa.Defer:
		d, err := ex.prepareCall(st, fr, &x.Call)
		if err != nil {
			return err
		}
		fr.defers = append(fr.defers, d)
		fr.pc++
		return nil
	case *ssa.Call:
		d, err := ex.prepareCall(st, fr, &x.Call)
		if err != nil {
			return err
		}
		return ex.callValue(st, d, fr.fn.index[x])
	case *ssa.Select:
		return ex.doSelect(st, fr, x)
	case ssa.Value:
		v, err := ex.eval(st, fr, x)
		if err != nil {
			return err
		}
		if v == nil {
			return nil // instruction blocked or re-executes
		}
		ex.set(fr, x, st.fold(v))
		fr.pc++
		return nil
	}
	return unsupported("instruction %T", in)
}

func describe(v Value) string {
	switch x := v.(type) {
	case *Iface:
		if len(x.Alts) == 1 {
			if s, ok := x.Alts[0].V.(*Str); ok {
				return s.S
			}
			return fmt.Sprintf("%v", x.Alts[0].T)
		}
	}
	return fmt.Sprintf("%T", v)
}

func (ex *Exec) jump(st *State, fr *Frame, to *ssa.BasicBlock) error {
	// loop unwinding: count entries of a block from a block with a higher or
	// equal index (a back edge in the usual layout)
	if to.Index <= fr.block.Index {
		if fr.visits == nil {
			fr.visits = map[int]int{}
		}
		// an iteration counts against the bound only when a symbolic branch
		// was taken since the previous visit: loops whose conditions are all
		// concrete are plain interpretation and end by themselves (MaxSteps is
		// the backstop)
		if fr.lastSym == nil {
			fr.lastSym = map[int]int{}
		}
		if last, seen := fr.lastSym[to.Index]; !seen || last != st.symBr {
			fr.visits[to.Index]++
		}
		fr.lastSym[to.Index] = st.symBr
		if fr.visits[to.Index] > ex.cfg.Unwind {
			ex.incomplete(st, fmt.Sprintf("INCOMPLETE bound: unwinding assertion failed (unwind=%d) in %s block %d at %s", ex.cfg.Unwind, fr.fn.fn, to.Index, ex.where(st)))
			return errPathEnd
		}
	}
	fr.prev = fr.block
	fr.block = to
	fr.pc = 0
	// phis are evaluated together on entry
	var vals []Value
	n := 0
	for _, in := range to.Instrs {
		phi, ok := in.(*ssa.Phi)
		if !ok {
			break
		}
		n++
		idx := -1
		for i, p := range to.Preds {
			if p == fr.prev {
				idx = i
				break
			}
		}
		if idx < 0 {
			return fmt.Errorf("internal: phi without matching pred")
		}
		v, err := ex.get(st, fr, phi.Edges[idx])
		if err != nil {
			return err
		}
		vals = append(vals, v)
	}
	for i := 0; i < n; i++ {
		ex.set(fr, to.Instrs[i].(*ssa.Phi), vals[i])
	}
	fr.pc = n
	return nil
}

// A leaf of a decision DAG: the block reached, the block it is entered from
// (for phis) and the condition under which it is reached.
type ifLeaf struct {
	g    *smt.Term
	to   *ssa.BasicBlock
	pred *ssa.BasicBlock
}

// pureInstr reports whether an instruction can be evaluated speculatively:
// no side effect and no run-time check.
func pureInstr(in ssa.Instruction) bool {
	switch x := in.(type) {
	case *ssa.BinOp:
		switch x.Op {
		case token.QUO, token.REM:
			return false
		case token.SHL, token.SHR:
			_, signed, _ := intWidth(x.Y.Type())
			return !signed
		}
		_, _, isInt := intWidth(x.X.Type())
		return isInt
	case *ssa.UnOp:
		return x.Op == token.NOT || x.Op == token.SUB || x.Op == token.XOR
	case *ssa.Convert:
		_, _, a := intWidth(x.X.Type())
		_, _, b := intWidth(x.Type())
		return a && b
	case *ssa.ChangeType, *ssa.Phi, *ssa.DebugRef:
		return true
	}
	return false
}

func foldable(b *ssa.BasicBlock) bool {
	if len(b.Preds) != 1 || len(b.Instrs) == 0 || len(b.Instrs) > 12 {
		return false
	}
	for i, in := range b.Instrs {
		if i == len(b.Instrs)-1 {
			_, ok := in.(*ssa.If)
			return ok
		}
		if !pureInstr(in) {
			return false
		}
	}
	return false
}

// decision collects the leaves of the DAG of pure if-blocks that starts at
// the If instruction x of block cur ("a && b", "a || b || c", range checks):
// the blocks in between are evaluated on the spot and never become paths.
func (ex *Exec) decision(st *State, fr *Frame, cur *ssa.BasicBlock, x *ssa.If, g *smt.Term, depth int, out *[]ifLeaf) error {
	cv, err := ex.get(st, fr, x.Cond)
	if err != nil {
		return err
	}
	cond := cv.(*smt.Term)
	for i, succ := range cur.Succs {
		gi := cond
		if i == 1 {
			gi = ex.ctx.Not(cond)
		}
		gi = ex.ctx.And(g, gi)
		if gi.IsFalse() {
			continue
		}
		if depth < 10 && !cond.IsConst() && foldable(succ) {
			// evaluate the block's pure instructions (its values are only
			// ever used below this block, which has a single predecessor)
			for _, in := range succ.Instrs[:len(succ.Instrs)-1] {
				switch v := in.(type) {
				case *ssa.Phi:
					pv, err := ex.get(st, fr, v.Edges[0])
					if err != nil {
						return err
					}
					ex.set(fr, v, pv)
				case ssa.Value:
					val, err := ex.eval(st, fr, v)
					if err != nil {
						return err
					}
					ex.set(fr, v, st.fold(val))
				}
			}
			if err := ex.decision(st, fr, succ, succ.Instrs[len(succ.Instrs)-1].(*ssa.If), gi, depth+1, out); err != nil {
				return err
			}
			continue
		}
		*out = append(*out, ifLeaf{g: gi, to: succ, pred: cur})
	}
	return nil
}

// samePhis reports whether entering block to from a or from b gives every phi
// the same value.
func (ex *Exec) samePhis(st *State, fr *Frame, to, a, b *ssa.BasicBlock) bool {
	if a == b {
		return true
	}
	ia, ib := -1, -1
	for i, p := range to.Preds {
		if p == a {
			ia = i
		}
		if p == b {
			ib = i
		}
	}
	if ia < 0 || ib < 0 {
		return false
	}
	for _, in := range to.Instrs {
		phi, ok := in.(*ssa.Phi)
		if !ok {
			break
		}
		va, err1 := ex.get(st, fr, phi.Edges[ia])
		vb, err2 := ex.get(st, fr, phi.Edges[ib])
		if err1 != nil || err2 != nil || !sameValue(va, vb) {
			return false
		}
	}
	return true
}

// sameValue is identity of symbolic values (terms are hash-consed).
func sameValue(a, b Value) bool {
	ta, ok1 := a.(Tuple)
	tb, ok2 := b.(Tuple)
	if ok1 || ok2 {
		if !ok1 || !ok2 || len(ta) != len(tb) {
			return false
		}
		for i := range ta {
			if !sameValue(ta[i], tb[i]) {
				return false
			}
		}
		return true
	}
	return a == b
}

func (ex *Exec) jumpFrom(st *State, fr *Frame, pred, to *ssa.BasicBlock) error {
	fr.block = pred
	return ex.jump(st, fr, to)
}

func (ex *Exec) doIf(st *State, fr *Frame, x *ssa.If) error {
	var leaves []ifLeaf
	if err := ex.decision(st, fr, fr.block, x, ex.ctx.True, 0, &leaves); err != nil {
		return err
	}
	// merge leaves that reach the same block with the same phi values
	var groups []ifLeaf
	for _, l := range leaves {
		merged := false
		for i := range groups {
			if groups[i].to == l.to && ex.samePhis(st, fr, l.to, groups[i].pred, l.pred) {
				groups[i].g = ex.ctx.Or(groups[i].g, l.g)
				merged = true
				break
			}
		}
		if !merged {
			groups = append(groups, l)
		}
	}
	if len(groups) == 0 {
		return errDead
	}
	if len(groups) == 1 {
		ex.res.BranchSyn++
		return ex.jumpFrom(st, fr, groups[0].pred, groups[0].to)
	}
	// syntactic decisions from the path condition
	for _, gr := range groups {
		if st.pcSet[gr.g.ID] {
			ex.res.BranchSyn++
			return ex.jumpFrom(st, fr, gr.pred, gr.to)
		}
	}
	ex.res.BranchSolver++
	st.symBr++
	var feas []ifLeaf
	for i, gr := range groups {
		var r smt.Result
		if i == len(groups)-1 && len(feas) == 0 {
			r = smt.Sat // the state is feasible, so the last remaining side is
		} else {
			r = ex.sat(st, gr.g)
		}
		if r == smt.Unknown {
			ex.incomplete(st, "INCONCLUSIVE branch feasibility at "+ex.pos(x)+" (side kept)")
		}
		if r != smt.Unsat {
			feas = append(feas, gr)
		}
	}
	if len(feas) == 0 {
		return errDead
	}
	for _, gr := range feas[1:] {
		o := st.clone()
		ofr := o.frame()
		o.assume(gr.g)
		if err := ex.jumpFrom(o, ofr, gr.pred, gr.to); err == nil {
			ex.push(o)
		}
		ex.res.Forks++
	}
	if len(feas) > 1 || !feas[0].g.IsTrue() {
		st.assume(feas[0].g)
	}
	return ex.jumpFrom(st, fr, feas[0].pred, feas[0].to)
}

func (ex *Exec) doReturn(st *State, fr *Frame, x *ssa.Return) error {
	var res Value
	switch len(x.Results) {
	case 0:
	case 1:
		v, err := ex.get(st, fr, x.Results[0])
		if err != nil {
			return err
		}
		res = v
	default:
		tu := make(Tuple, len(x.Results))
		for i, r := range x.Results {
			v, err := ex.get(st, fr, r)
			if err != nil {
				return err
			}
			tu[i] = v
		}
		res = tu
	}
	return ex.popFrame(st, res)
}

func (ex *Exec) popFrame(st *State, res Value) error {
	t := st.task()
	fr := t.top()
	t.frames = t.frames[:len(t.frames)-1]
	if fr.onReturn != nil {
		return fr.onReturn(st, res)
	}
	if len(t.frames) == 0 {
		t.status = taskDone
		if st.cur == 0 {
			st.done = true
			return nil
		}
		return ex.schedule(st)
	}
	caller := t.top()
	if fr.retSlot >= 0 {
		if res == nil {
			res = Tuple{}
		}
		caller.locals[fr.retSlot] = res
	}
	if !fr.isDefer {
		caller.pc++
	}
	return nil
}

func (ex *Exec) doStore(st *State, fr *Frame, x *ssa.Store) error {
	av, err := ex.get(st, fr, x.Addr)
	if err != nil {
		return err
	}
	v, err := ex.get(st, fr, x.Val)
	if err != nil {
		return err
	}
	p := av.(*Ptr)
	if ok, err := ex.nilCheck(st, p, ex.pos(x)); !ok {
		if err != nil {
			return err
		}
		return errPathEnd
	}
	if err := st.store(p, v); err != nil {
		return err
	}
	fr.pc++
	return nil
}

// nilCheck is the implicit obligation of a dereference.
func (ex *Exec) nilCheck(st *State, p *Ptr, pos string) (bool, error) {
	ng := st.nilGuard(p)
	if ng.IsFalse() {
		return true, nil
	}
	return ex.check(st, ex.ctx.Not(ng), "trap", "nil dereference", pos)
}

func (ex *Exec) eval(st *State, fr *Frame, v ssa.Value) (Value, error) {
	c := ex.ctx
	switch x := v.(type) {
	case *ssa.Alloc:
		et := deref(x.Type())
		return st.newPtr(st.zero(et), et, x.Comment), nil
	case *ssa.Phi:
		return nil, fmt.Errorf("internal: phi in the middle of a block")
	case *ssa.BinOp:
		a, err := ex.get(st, fr, x.X)
		if err != nil {
			return nil, err
		}
		b, err := ex.get(st, fr, x.Y)
		if err != nil {
			return nil, err
		}
		return ex.binop(st, x, a, b)
	case *ssa.UnOp:
		a, err := ex.get(st, fr, x.X)
		if err != nil {
			return nil, err
		}
		return ex.unop(st, fr, x, a)
	case *ssa.ChangeType:
		return ex.get(st, fr, x.X)
	case *ssa.ChangeInterface:
		return ex.get(st, fr, x.X)
	case *ssa.Convert:
		a, err := ex.get(st, fr, x.X)
		if err != nil {
			return nil, err
		}
		return ex.convert(st, x, a)
	case *ssa.MakeInterface:
		a, err := ex.get(st, fr, x.X)
		if err != nil {
			return nil, err
		}
		return &Iface{Alts: []IfaceAlt{{G: c.True, T: x.X.Type(), V: a}}}, nil
	case *ssa.MakeClosure:
		f := &Func{Fn: x.Fn.(*ssa.Function)}
		for _, b := range x.Bindings {
			bv, err := ex.get(st, fr, b)
			if err != nil {
				return nil, err
			}
			f.Bindings = append(f.Bindings, bv)
		}
		return f, nil
	case *ssa.MakeSlice:
		return ex.makeSlice(st, fr, x)
	case *ssa.MakeMap:
		mt := under(x.Type()).(*types.Map)
		id := st.newObj(&MapObj{K: mt.Key(), V: mt.Elem()}, x.Type(), "map")
		return &MapV{Obj: id}, nil
	case *ssa.MakeChan:
		sz, err := ex.get(st, fr, x.Size)
		if err != nil {
			return nil, err
		}
		n, err := ex.concretize(st, sz.(*smt.Term), "channel size")
		if err != nil {
			return nil, err
		}
		ct := under(x.Type()).(*types.Chan)
		id := st.newObj(&ChanObj{Elem: ct.Elem(), Cap: int(n)}, x.Type(), "chan")
		return &ChanV{Obj: id}, nil
	case *ssa.FieldAddr:
		a, err := ex.get(st, fr, x.X)
		if err != nil {
			return nil, err
		}
		p := a.(*Ptr)
		if ok, err := ex.nilCheck(st, p, ex.pos(x)); !ok {
			if err != nil {
				return nil, err
			}
			return nil, errPathEnd
		}
		r := &Ptr{}
		for _, al := range p.Alts {
			if al.L == nil {
				continue
			}
			r.Alts = append(r.Alts, PtrAlt{G: al.G, L: al.L.extend(Step{F: x.Field})})
		}
		if len(r.Alts) == 1 {
			r.Alts[0].G = c.True
		}
		return r, nil
	case *ssa.Field:
		a, err := ex.get(st, fr, x.X)
		if err != nil {
			return nil, err
		}
		return st.field(a.(*Struct), x.Field), nil
	case *ssa.IndexAddr:
		return ex.indexAddr(st, fr, x)
	case *ssa.Index:
		return ex.index(st, fr, x)
	case *ssa.Lookup:
		return ex.lookup(st, fr, x)
	case *ssa.Slice:
		return ex.slice(st, fr, x)
	case *ssa.Extract:
		a, err := ex.get(st, fr, x.Tuple)
		if err != nil {
			return nil, err
		}
		return a.(Tuple)[x.Index], nil
	case *ssa.TypeAssert:
		return ex.typeAssert(st, fr, x)
	case *ssa.Range:
		return ex.doRange(st, fr, x)
	case *ssa.Next:
		return ex.doNext(st, fr, x)
	case *ssa.SliceToArrayPointer:
		return nil, unsupported("SliceToArrayPointer")
	case *ssa.MultiConvert:
		return nil, unsupported("MultiConvert")
	}
	return nil, unsupported("value instruction %T", v)
}

func boolTerm(v Value) *smt.Term { return v.(*smt.Term) }

func (ex *Exec) binop(st *State, x *ssa.BinOp, a, b Value) (Value, error) {
	c := ex.ctx
	switch av := a.(type) {
	case *smt.Term:
		bv, ok := b.(*smt.Term)
		if !ok {
			return nil, unsupported("binop %s on term and %T", x.Op, b)
		}
		return ex.intBinop(st, x, av, bv)
	case *Str:
		bv := b.(*Str)
		switch x.Op {
		case token.ADD:
			return ex.strConcat(st, av, bv), nil
		case token.EQL:
			return ex.strEq(st, av, bv), nil
		case token.NEQ:
			return c.Not(ex.strEq(st, av, bv)), nil
		}
		return nil, unsupported("string op %s", x.Op)
	case *Ptr:
		bv, ok := b.(*Ptr)
		if !ok {
			return nil, unsupported("pointer compared with %T", b)
		}
		eq := ex.ptrEq(av, bv)
		if x.Op == token.NEQ {
			return c.Not(eq), nil
		}
		if x.Op == token.EQL {
			return eq, nil
		}
	case *Slice:
		// only comparison with nil exists
		eq := st.nilGuard(av.Base)
		if bs, ok := b.(*Slice); ok && !bs.Base.isNilConst() {
			eq = st.nilGuard(bs.Base)
			if !av.Base.isNilConst() {
				return nil, unsupported("slice comparison of two non-nil-constant slices")
			}
		}
		if x.Op == token.NEQ {
			return c.Not(eq), nil
		}
		return eq, nil
	case *Iface:
		bv := b.(*Iface)
		eq, err := ex.ifaceEq(st, av, bv, ex.pos(x))
		if err != nil {
			return nil, err
		}
		if x.Op == token.NEQ {
			return c.Not(eq), nil
		}
		return eq, nil
	case *Func:
		bf := b.(*Func)
		isNil := func(f *Func) bool { return f.Fn == nil && f.Builtin == nil && f.Native == "" }
		var eq bool
		switch {
		case isNil(bf):
			eq = isNil(av)
		case isNil(av):
			eq = isNil(bf)
		default:
			return nil, unsupported("func comparison")
		}
		if x.Op == token.NEQ {
			eq = !eq
		}
		return c.Bool(eq), nil
	case *MapV:
		bm := b.(*MapV)
		eq := av.Obj == bm.Obj
		if x.Op == token.NEQ {
			eq = !eq
		}
		return c.Bool(eq), nil
	case *ChanV:
		bm := b.(*ChanV)
		eq := av.Obj == bm.Obj
		if x.Op == token.NEQ {
			eq = !eq
		}
		return c.Bool(eq), nil
	case *Struct:
		bs := b.(*Struct)
		eq, err := ex.valueEq(st, av, bs, ex.pos(x))
		if err != nil {
			return nil, err
		}
		if x.Op == token.NEQ {
			return c.Not(eq), nil
		}
		return eq, nil
	case *Array:
		eq, err := ex.valueEq(st, av, b, ex.pos(x))
		if err != nil {
			return nil, err
		}
		if x.Op == token.NEQ {
			return c.Not(eq), nil
		}
		return eq, nil
	case *Opaque:
		return &Opaque{T: x.Type()}, nil
	}
	return nil, unsupported("binop %s on %T", x.Op, a)
}

func (ex *Exec) ptrEq(a, b *Ptr) *smt.Term {
	c := ex.ctx
	eq := c.False
	for _, x := range a.Alts {
		for _, y := range b.Alts {
			if sameLoc(x.L, y.L) {
				eq = c.Or(eq, c.And(x.G, y.G))
			} else if x.L != nil && y.L != nil && x.L.Obj == y.L.Obj && len(x.L.Path) == len(y.L.Path) {
				// same shape, possibly equal symbolic indices
				g := c.And(x.G, y.G)
				same := true
				for i := range x.L.Path {
					sx, sy := x.L.Path[i], y.L.Path[i]
					if (sx.Idx == nil) != (sy.Idx == nil) || (sx.Idx == nil && sx.F != sy.F) {
						same = false
						break
					}
					if sx.Idx != nil {
						g = c.And(g, c.Eq(sx.Idx, sy.Idx))
					}
				}
				if same {
					eq = c.Or(eq, g)
				}
			}
		}
	}
	return eq
}

// valueEq compares comparable values.
func (ex *Exec) valueEq(st *State, a, b Value, pos string) (*smt.Term, error) {
	c := ex.ctx
	switch x := a.(type) {
	case *smt.Term:
		return c.Eq(x, b.(*smt.Term)), nil
	case *Str:
		return ex.strEq(st, x, b.(*Str)), nil
	case *Ptr:
		return ex.ptrEq(x, b.(*Ptr)), nil
	case *Iface:
		return ex.ifaceEq(st, x, b.(*Iface), pos)
	case *Struct:
		y := b.(*Struct)
		r := c.True
		for i := range x.Fields {
			e, err := ex.valueEq(st, st.field(x, i), st.field(y, i), pos)
			if err != nil {
				return nil, err
			}
			r = c.And(r, e)
		}
		return r, nil
	case *Array:
		y := b.(*Array)
		if x.Abs != nil || y.Abs != nil {
			return nil, unsupported("comparison of abstract arrays")
		}
		r := c.True
		for i := range x.Elems {
			e, err := ex.valueEq(st, st.elem(x, i), st.elem(y, i), pos)
			if err != nil {
				return nil, err
			}
			r = c.And(r, e)
		}
		return r, nil
	case *ChanV:
		return c.Bool(x.Obj == b.(*ChanV).Obj), nil
	case *MapV:
		return c.Bool(x.Obj == b.(*MapV).Obj), nil
	case *Opaque:
		y, ok := b.(*Opaque)
		if ok && x.ID != 0 && x.ID == y.ID {
			return c.True, nil
		}
		return nil, unsupported("comparison of opaque values")
	}
	return nil, unsupported("comparison of %T", a)
}

func (ex *Exec) ifaceEq(st *State, a, b *Iface, pos string) (*smt.Term, error) {
	c := ex.ctx
	eq := c.False
	for _, x := range a.Alts {
		for _, y := range b.Alts {
			g := c.And(x.G, y.G)
			if g.IsFalse() {
				continue
			}
			if x.T == nil || y.T == nil {
				if x.T == nil && y.T == nil {
					eq = c.Or(eq, g)
				}
				continue
			}
			if !types.Identical(x.T, y.T) {
				continue
			}
			if !types.Comparable(x.T) {
				ok, err := ex.check(st, c.Not(g), "trap", "comparing uncomparable type "+x.T.String(), pos)
				if err != nil || !ok {
					return nil, errPathEnd
				}
				continue
			}
			e, err := ex.valueEq(st, x.V, y.V, pos)
			if err != nil {
				return nil, err
			}
			eq = c.Or(eq, c.And(g, e))
		}
	}
	return eq, nil
}

func (ex *Exec) strEq(st *State, a, b *Str) *smt.Term {
	c := ex.ctx
	if a.Opaque != 0 || b.Opaque != 0 {
		if a.Opaque == b.Opaque {
			return c.True
		}
		return c.Var("streq", 0)
	}
	if a.Bytes == nil && b.Bytes == nil {
		return c.Bool(a.S == b.S)
	}
	ab, bb := st.strBytes(a), st.strBytes(b)
	if len(ab) != len(bb) {
		return c.False
	}
	r := c.True
	for i := range ab {
		r = c.And(r, c.Eq(ab[i], bb[i]))
	}
	return r
}

func (ex *Exec) strConcat(st *State, a, b *Str) *Str {
	if a.Opaque != 0 || b.Opaque != 0 {
		st.opaque++
		return &Str{Opaque: st.opaque + 1000}
	}
	if a.Bytes == nil && b.Bytes == nil {
		return &Str{S: a.S + b.S}
	}
	if len(a.S) == 0 && a.Bytes == nil {
		return b
	}
	if len(b.S) == 0 && b.Bytes == nil {
		return a
	}
	return &Str{Bytes: append(append([]*smt.Term(nil), st.strBytes(a)...), st.strBytes(b)...)}
}

func (ex *Exec) intBinop(st *State, x *ssa.BinOp, a, b *smt.Term) (Value, error) {
	c := ex.ctx
	t := x.X.Type()
	_, signed, _ := intWidth(t)
	if a.W == 0 {
		switch x.Op {
		case token.EQL:
			return c.Eq(a, b), nil
		case token.NEQ:
			return c.Ne(a, b), nil
		case token.AND, token.LAND:
			return c.And(a, b), nil
		case token.OR, token.LOR:
			return c.Or(a, b), nil
		}
		return nil, unsupported("bool op %s", x.Op)
	}
	switch x.Op {
	case token.ADD:
		return c.Bin(smt.OpAdd, a, b), nil
	case token.SUB:
		return c.Bin(smt.OpSub, a, b), nil
	case token.MUL:
		return c.Bin(smt.OpMul, a, b), nil
	case token.QUO, token.REM:
		ok, err := ex.check(st, c.Ne(b, c.Const(b.W, 0)), "trap", "integer divide by zero", ex.pos(x))
		if err != nil {
			return nil, err
		}
		if !ok {
			return nil, errPathEnd
		}
		op := smt.OpUDiv
		switch {
		case x.Op == token.QUO && signed:
			op = smt.OpSDiv
		case x.Op == token.REM && signed:
			op = smt.OpSRem
		case x.Op == token.REM:
			op = smt.OpURem
		}
		return c.Bin(op, a, b), nil
	case token.AND:
		return c.Bin(smt.OpBAnd, a, b), nil
	case token.OR:
		return c.Bin(smt.OpBOr, a, b), nil
	case token.XOR:
		return c.Bin(smt.OpBXor, a, b), nil
	case token.AND_NOT:
		return c.Bin(smt.OpBAnd, a, c.Un(smt.OpBNot, b)), nil
	case token.SHL, token.SHR:
		// the shift count has its own type
		_, csigned, _ := intWidth(x.Y.Type())
		if csigned {
			ok, err := ex.check(st, c.Not(c.Cmp(smt.OpSlt, b, c.Const(b.W, 0))), "trap", "negative shift amount", ex.pos(x))
			if err != nil {
				return nil, err
			}
			if !ok {
				return nil, errPathEnd
			}
		}
		w := a.W
		var cnt, big *smt.Term
		if b.W > w {
			big = c.Not(c.Cmp(smt.OpUlt, b, c.Const(b.W, uint64(w))))
			cnt = c.Extract(b, w-1, 0)
		} else {
			big = c.False
			cnt = c.ZExt(b, w)
		}
		switch {
		case x.Op == token.SHL:
			return c.Ite(big, c.Const(w, 0), c.Bin(smt.OpShl, a, cnt)), nil
		case signed:
			return c.Ite(big, c.Bin(smt.OpAShr, a, c.Const(w, uint64(w-1))), c.Bin(smt.OpAShr, a, cnt)), nil
		default:
			return c.Ite(big, c.Const(w, 0), c.Bin(smt.OpLShr, a, cnt)), nil
		}
	case token.EQL:
		return c.Eq(a, b), nil
	case token.NEQ:
		return c.Ne(a, b), nil
	case token.LSS:
		if signed {
			return c.Cmp(smt.OpSlt, a, b), nil
		}
		return c.Cmp(smt.OpUlt, a, b), nil
	case token.LEQ:
		if signed {
			return c.Cmp(smt.OpSle, a, b), nil
		}
		return c.Cmp(smt.OpUle, a, b), nil
	case token.GTR:
		if signed {
			return c.Cmp(smt.OpSlt, b, a), nil
		}
		return c.Cmp(smt.OpUlt, b, a), nil
	case token.GEQ:
		if signed {
			return c.Cmp(smt.OpSle, b, a), nil
		}
		return c.Cmp(smt.OpUle, b, a), nil
	}
	return nil, unsupported("int op %s", x.Op)
}

func (ex *Exec) unop(st *State, fr *Frame, x *ssa.UnOp, a Value) (Value, error) {
	c := ex.ctx
	switch x.Op {
	case token.MUL: // load
		p := a.(*Ptr)
		if ok, err := ex.nilCheck(st, p, ex.pos(x)); !ok {
			if err != nil {
				return nil, err
			}
			return nil, errPathEnd
		}
		return st.load(p)
	case token.NOT:
		return c.Not(a.(*smt.Term)), nil
	case token.SUB:
		if _, ok := a.(*Opaque); ok {
			return a, nil
		}
		return c.Un(smt.OpNeg, a.(*smt.Term)), nil
	case token.XOR:
		return c.Un(smt.OpBNot, a.(*smt.Term)), nil
	case token.ARROW:
		return ex.doRecv(st, fr, x, a.(*ChanV))
	}
	return nil, unsupported("unop %s", x.Op)
}

func (ex *Exec) convert(st *State, x *ssa.Convert, a Value) (Value, error) {
	c := ex.ctx
	from, to := x.X.Type(), x.Type()
	if tw, _, ok := intWidth(to); ok {
		if av, ok := a.(*smt.Term); ok {
			_, fsigned, _ := intWidth(from)
			switch {
			case tw == av.W:
				return av, nil
			case tw < av.W:
				return c.Extract(av, tw-1, 0), nil
			case fsigned:
				return c.SExt(av, tw), nil
			default:
				return c.ZExt(av, tw), nil
			}
		}
		if _, ok := a.(*Opaque); ok {
			return c.Var("fromfloat", tw), nil
		}
		if p, ok := a.(*Ptr); ok { // unsafe.Pointer -> uintptr
			_ = p
			return nil, unsupported("pointer to integer conversion")
		}
	}
	if isFloat(to) {
		return &Opaque{T: to}, nil
	}
	if isString(to) {
		switch av := a.(type) {
		case *Str:
			return av, nil
		case *Slice: // []byte -> string
			bs, err := ex.sliceBytes(st, av, "string conversion")
			if err != nil {
				return nil, err
			}
			return bytesToStr(bs), nil
		case *smt.Term: // rune/byte -> string
			if av.IsConst() {
				return &Str{S: string(rune(av.Val))}, nil
			}
			return nil, unsupported("symbolic rune to string")
		}
	}
	if isByteSlice(to) {
		if av, ok := a.(*Str); ok {
			if av.Opaque != 0 {
				// opaque content of unknown length: model as an empty-but-
				// unknown slice is unsound; use a fresh abstract array.
				return nil, unsupported("[]byte(opaque string)")
			}
			bs := st.strBytes(av)
			arr := &Array{Elem: types.Typ[types.Uint8], Elems: make([]Value, len(bs))}
			for i, b := range bs {
				arr.Elems[i] = b
			}
			p := st.newPtr(arr, types.NewArray(types.Typ[types.Uint8], int64(len(bs))), "[]byte(string)")
			n := c.Const(64, uint64(len(bs)))
			return &Slice{Base: p, Off: c.Const(64, 0), Len: n, Cap: n}, nil
		}
	}
	if _, ok := under(to).(*types.Pointer); ok {
		return a, nil // unsafe.Pointer <-> *T
	}
	if b, ok := under(to).(*types.Basic); ok && b.Kind() == types.UnsafePointer {
		return a, nil
	}
	return nil, unsupported("convert %s -> %s", from, to)
}

func bytesToStr(bs []*smt.Term) *Str {
	allc := true
	for _, b := range bs {
		allc = allc && b.IsConst()
	}
	if allc {
		r := make([]byte, len(bs))
		for i, b := range bs {
			r[i] = byte(b.Val)
		}
		return &Str{S: string(r)}
	}
	if len(bs) == 0 {
		return &Str{}
	}
	return &Str{Bytes: append([]*smt.Term(nil), bs...)}
}

// sliceBytes reads the content of a byte slice (concretising its length).
func (ex *Exec) sliceBytes(st *State, s *Slice, what string) ([]*smt.Term, error) {
	n, err := ex.concretize(st, s.Len, what+" length")
	if err != nil {
		return nil, err
	}
	out := make([]*smt.Term, n)
	for i := uint64(0); i < n; i++ {
		v, err := ex.sliceElem(st, s, ex.ctx.Const(64, i))
		if err != nil {
			return nil, err
		}
		t, ok := v.(*smt.Term)
		if !ok {
			return nil, fmt.Errorf("internal: non-byte element %T", v)
		}
		out[i] = t
	}
	return out, nil
}

func (ex *Exec) elemPtr(s *Slice, idx *smt.Term) *Ptr {
	c := ex.ctx
	r := &Ptr{}
	for _, al := range s.Base.Alts {
		if al.L == nil {
			continue
		}
		r.Alts = append(r.Alts, PtrAlt{G: al.G, L: al.L.extend(Step{Idx: c.Add(s.Off, idx)})})
	}
	if len(r.Alts) == 1 {
		r.Alts[0].G = c.True
	}
	return r
}

// sliceElem reads s[idx] without bounds checking.
func (ex *Exec) sliceElem(st *State, s *Slice, idx *smt.Term) (Value, error) {
	p := ex.elemPtr(s, idx)
	if len(p.Alts) == 0 {
		return nil, fmt.Errorf("internal: element of nil slice")
	}
	return st.load(p)
}

func (ex *Exec) toIndex(v Value, t types.Type) *smt.Term {
	c := ex.ctx
	tv := v.(*smt.Term)
	_, signed, _ := intWidth(t)
	if tv.W == 64 {
		return tv
	}
	if signed {
		return c.SExt(tv, 64)
	}
	return c.ZExt(tv, 64)
}

func (ex *Exec) indexAddr(st *State, fr *Frame, x *ssa.IndexAddr) (Value, error) {
	c := ex.ctx
	a, err := ex.get(st, fr, x.X)
	if err != nil {
		return nil, err
	}
	iv, err := ex.get(st, fr, x.Index)
	if err != nil {
		return nil, err
	}
	idx := ex.toIndex(iv, x.Index.Type())
	switch av := a.(type) {
	case *Slice:
		ok, err := ex.check(st, c.Cmp(smt.OpUlt, idx, av.Len), "trap", "index out of range", ex.pos(x))
		if err != nil {
			return nil, err
		}
		if !ok {
			return nil, errPathEnd
		}
		return ex.elemPtr(av, idx), nil
	case *Ptr: // pointer to array
		if ok, err := ex.nilCheck(st, av, ex.pos(x)); !ok {
			if err != nil {
				return nil, err
			}
			return nil, errPathEnd
		}
		at := under(deref(x.X.Type())).(*types.Array)
		ok, err := ex.check(st, c.Cmp(smt.OpUlt, idx, c.Const(64, uint64(at.Len()))), "trap", "index out of range", ex.pos(x))
		if err != nil {
			return nil, err
		}
		if !ok {
			return nil, errPathEnd
		}
		r := &Ptr{}
		for _, al := range av.Alts {
			if al.L == nil {
				continue
			}
			r.Alts = append(r.Alts, PtrAlt{G: al.G, L: al.L.extend(Step{Idx: idx})})
		}
		if len(r.Alts) == 1 {
			r.Alts[0].G = c.True
		}
		return r, nil
	}
	return nil, unsupported("IndexAddr on %T", a)
}

func (ex *Exec) index(st *State, fr *Frame, x *ssa.Index) (Value, error) {
	c := ex.ctx
	a, err := ex.get(st, fr, x.X)
	if err != nil {
		return nil, err
	}
	iv, err := ex.get(st, fr, x.Index)
	if err != nil {
		return nil, err
	}
	idx := ex.toIndex(iv, x.Index.Type())
	switch av := a.(type) {
	case *Array:
		ok, err := ex.check(st, c.Cmp(smt.OpUlt, idx, c.Const(64, uint64(len(av.Elems)))), "trap", "index out of range", ex.pos(x))
		if err != nil {
			return nil, err
		}
		if !ok {
			return nil, errPathEnd
		}
		return st.loadAt(av, []Step{{Idx: idx}})
	case *Str:
		return ex.strIndex(st, av, idx, ex.pos(x))
	}
	return nil, unsupported("Index on %T", a)
}

func (ex *Exec) strIndex(st *State, s *Str, idx *smt.Term, pos string) (Value, error) {
	c := ex.ctx
	if s.Opaque != 0 {
		return nil, unsupported("index into opaque string")
	}
	bs := st.strBytes(s)
	ok, err := ex.check(st, c.Cmp(smt.OpUlt, idx, c.Const(64, uint64(len(bs)))), "trap", "string index out of range", pos)
	if err != nil {
		return nil, err
	}
	if !ok {
		return nil, errPathEnd
	}
	if idx.IsConst() {
		return bs[idx.Val], nil
	}
	var acc *smt.Term
	for i := len(bs) - 1; i >= 0; i-- {
		if acc == nil {
			acc = bs[i]
			continue
		}
		acc = c.Ite(c.Eq(idx, c.Const(64, uint64(i))), bs[i], acc)
	}
	return acc, nil
}

func (ex *Exec) makeSlice(st *State, fr *Frame, x *ssa.MakeSlice) (Value, error) {
	c := ex.ctx
	lv, err := ex.get(st, fr, x.Len)
	if err != nil {
		return nil, err
	}
	cv, err := ex.get(st, fr, x.Cap)
	if err != nil {
		return nil, err
	}
	lt, ct := ex.toIndex(lv, x.Len.Type()), ex.toIndex(cv, x.Cap.Type())
	// obligations: 0 <= len <= cap, and a sane size
	ok, err := ex.check(st, c.And(c.Cmp(smt.OpSle, c.Const(64, 0), lt), c.Cmp(smt.OpSle, lt, ct)), "trap", "makeslice: len out of range", ex.pos(x))
	if err != nil {
		return nil, err
	}
	if !ok {
		return nil, errPathEnd
	}
	et := under(x.Type()).(*types.Slice).Elem()
	if !ct.IsConst() && isByteSlice(x.Type()) && ex.prog.AbstractMake {
		arr := &Array{Elem: et, Abs: c.ArrVar("mk"), Size: ct}
		p := st.newPtr(arr, types.NewArray(et, 0), "make(abstract)")
		return &Slice{Base: p, Off: c.Const(64, 0), Len: lt, Cap: ct}, nil
	}
	cn, err := ex.concretize(st, ct, "make cap")
	if err != nil {
		return nil, err
	}
	ln, err := ex.concretize(st, lt, "make len")
	if err != nil {
		return nil, err
	}
	if cn > 1<<22 {
		return nil, unsupported("make of %d elements", cn)
	}
	arr := &Array{Elem: et, Elems: make([]Value, cn)}
	p := st.newPtr(arr, types.NewArray(et, int64(cn)), "make")
	return &Slice{Base: p, Off: c.Const(64, 0), Len: c.Const(64, ln), Cap: c.Const(64, cn)}, nil
}

func (ex *Exec) slice(st *State, fr *Frame, x *ssa.Slice) (Value, error) {
	c := ex.ctx
	a, err := ex.get(st, fr, x.X)
	if err != nil {
		return nil, err
	}
	opt := func(v ssa.Value) (*smt.Term, error) {
		if v == nil {
			return nil, nil
		}
		r, err := ex.get(st, fr, v)
		if err != nil {
			return nil, err
		}
		return ex.toIndex(r, v.Type()), nil
	}
	lo, err := opt(x.Low)
	if err != nil {
		return nil, err
	}
	hi, err := opt(x.High)
	if err != nil {
		return nil, err
	}
	mx, err := opt(x.Max)
	if err != nil {
		return nil, err
	}
	zero := c.Const(64, 0)
	if lo == nil {
		lo = zero
	}
	switch av := a.(type) {
	case *Str:
		if av.Opaque != 0 {
			return nil, unsupported("slice of opaque string")
		}
		bs := st.strBytes(av)
		if hi == nil {
			hi = c.Const(64, uint64(len(bs)))
		}
		ok, err := ex.check(st, c.And(c.Cmp(smt.OpUle, lo, hi), c.Cmp(smt.OpUle, hi, c.Const(64, uint64(len(bs))))), "trap", "string slice bounds out of range", ex.pos(x))
		if err != nil {
			return nil, err
		}
		if !ok {
			return nil, errPathEnd
		}
		l, err := ex.concretize(st, lo, "string slice low")
		if err != nil {
			return nil, err
		}
		h, err := ex.concretize(st, hi, "string slice high")
		if err != nil {
			return nil, err
		}
		return bytesToStr(bs[l:h]), nil
	case *Slice:
		if hi == nil {
			hi = av.Len
		}
		capT := av.Cap
		if mx == nil {
			mx = capT
		}
		cond := c.And(c.Cmp(smt.OpUle, lo, hi), c.And(c.Cmp(smt.OpUle, hi, mx), c.Cmp(smt.OpUle, mx, capT)))
		ok, err := ex.check(st, cond, "trap", "slice bounds out of range", ex.pos(x))
		if err != nil {
			return nil, err
		}
		if !ok {
			return nil, errPathEnd
		}
		if !ex.isAbstract(st, av) {
			// positional arrays keep concrete bounds
			for _, t := range []**smt.Term{&lo, &hi, &mx} {
				if !(*t).IsConst() {
					v, err := ex.concretize(st, *t, "slice bound")
					if err != nil {
						return nil, err
					}
					*t = c.Const(64, v)
				}
			}
		}
		return &Slice{Base: av.Base, Off: c.Add(av.Off, lo), Len: c.Sub(hi, lo), Cap: c.Sub(mx, lo)}, nil
	case *Ptr: // pointer to array
		if ok, err := ex.nilCheck(st, av, ex.pos(x)); !ok {
			if err != nil {
				return nil, err
			}
			return nil, errPathEnd
		}
		at := under(deref(x.X.Type())).(*types.Array)
		n := c.Const(64, uint64(at.Len()))
		if hi == nil {
			hi = n
		}
		if mx == nil {
			mx = n
		}
		cond := c.And(c.Cmp(smt.OpUle, lo, hi), c.And(c.Cmp(smt.OpUle, hi, mx), c.Cmp(smt.OpUle, mx, n)))
		ok, err := ex.check(st, cond, "trap", "slice bounds out of range", ex.pos(x))
		if err != nil {
			return nil, err
		}
		if !ok {
			return nil, errPathEnd
		}
		for _, t := range []**smt.Term{&lo, &hi, &mx} {
			if !(*t).IsConst() {
				v, err := ex.concretize(st, *t, "slice bound")
				if err != nil {
					return nil, err
				}
				*t = c.Const(64, v)
			}
		}
		return &Slice{Base: av, Off: lo, Len: c.Sub(hi, lo), Cap: c.Sub(mx, lo)}, nil
	}
	return nil, unsupported("Slice on %T", a)
}

// isAbstract reports whether the slice is backed by an abstract array.
func (ex *Exec) isAbstract(st *State, s *Slice) bool {
	for _, al := range s.Base.Alts {
		if al.L == nil {
			continue
		}
		v, err := st.loadLoc(al.L)
		if err != nil {
			return false
		}
		if a, ok := v.(*Array); ok && a.Abs != nil {
			return true
		}
	}
	return false
}

func (ex *Exec) typeAssert(st *State, fr *Frame, x *ssa.TypeAssert) (Value, error) {
	c := ex.ctx
	a, err := ex.get(st, fr, x.X)
	if err != nil {
		return nil, err
	}
	iv := a.(*Iface)
	guards := make([]*smt.Term, len(iv.Alts))
	for i, al := range iv.Alts {
		guards[i] = al.G
	}
	i, err := ex.pickAlt(st, iv, guards)
	if err != nil {
		return nil, err
	}
	al := iv.Alts[i]
	ok := false
	var res Value
	if al.T != nil {
		if it, isI := under(x.AssertedType).(*types.Interface); isI {
			ok = types.Implements(al.T, it)
			res = &Iface{Alts: []IfaceAlt{{G: c.True, T: al.T, V: al.V}}}
		} else {
			ok = types.Identical(al.T, x.AssertedType)
			res = al.V
		}
	}
	if x.CommaOk {
		if !ok {
			res = st.zero(x.AssertedType)
		}
		return Tuple{res, c.Bool(ok)}, nil
	}
	if !ok {
		_, tape := ex.model(st)
		ex.violation(st, "trap", "failed type assertion", ex.pos(x), fmt.Sprintf("%v is not %v", al.T, x.AssertedType), tape)
		return nil, errPathEnd
	}
	return res, nil
}
