package sym

import (
	"fmt"
	"go/types"

	"golang.org/x/tools/go/ssa"

	"verif/engine/smt"
)

type deferred struct {
	fn   Value // *Func
	args []Value
	// invoke
	recv   Value
	method *types.Func
}

type Frame struct {
	fn     *FuncInfo
	block  *ssa.BasicBlock
	prev   *ssa.BasicBlock
	pc     int
	locals []Value
	defers []deferred
	// where to put the result in the caller (index of the call value), -1 none
	retSlot int
	// running deferred calls after a return/rundefers
	visits  map[int]int // block index -> visit count (loop unwinding)
	lastSym map[int]int
	// onReturn, when set, is called natively with the results instead of
	// storing them into the caller's slot.
	onReturn func(st *State, res Value) error
	isDefer  bool
}

func (f *Frame) clone() *Frame {
	g := *f
	g.locals = append([]Value(nil), f.locals...)
	g.defers = append([]deferred(nil), f.defers...)
	if f.visits != nil {
		g.visits = make(map[int]int, len(f.visits))
		for k, v := range f.visits {
			g.visits[k] = v
		}
	}
	if f.lastSym != nil {
		g.lastSym = make(map[int]int, len(f.lastSym))
		for k, v := range f.lastSym {
			g.lastSym[k] = v
		}
	}
	return &g
}

type taskStatus int

const (
	taskRunnable taskStatus = iota
	taskBlocked
	taskDone
)

type Task struct {
	id       int
	frames   []*Frame
	status   taskStatus
	name     string
	yielding bool
	waitLock string
}

func (t *Task) clone() *Task {
	g := *t
	g.frames = make([]*Frame, len(t.frames))
	for i, f := range t.frames {
		g.frames[i] = f.clone()
	}
	return &g
}

func (t *Task) top() *Frame { return t.frames[len(t.frames)-1] }

type TapeEntry struct {
	Kind string // u8,u16,u32,u64,int,bool,bytes,range
	T    *smt.Term
}

// State is one symbolic execution path.
type State struct {
	ex      *Exec
	id      int
	heap    map[int]*Object
	nextObj int
	tasks   []*Task
	cur     int
	pc      []*smt.Term
	pcSet   map[int]bool
	tape    []TapeEntry
	pools   map[string][]Value
	inPool  map[int]bool
	ghosts  map[string]int
	locks   map[string]int
	covers  map[string]bool
	steps   int
	forks   int
	trace   []string
	notes   []string
	// switches counts scheduler context switches on this path.
	switches int
	opaque   int
	done     bool
	conc     map[int]uint64
	alt      map[interface{}]int
	nchoice  int
	isInit   bool
	symBr    int
	w        *worker
	sink     *[]*State // when set, forks of this state are collected here
	sumDone  bool
	sumRes   Value
}

func (s *State) clone() *State {
	g := *s
	s.ex.nstates++
	g.id = s.ex.nstates
	g.heap = make(map[int]*Object, len(s.heap)+8)
	for k, v := range s.heap {
		g.heap[k] = v
	}
	g.tasks = make([]*Task, len(s.tasks))
	for i, t := range s.tasks {
		g.tasks[i] = t.clone()
	}
	g.pc = append([]*smt.Term(nil), s.pc...)
	g.pcSet = make(map[int]bool, len(s.pcSet)+4)
	for k := range s.pcSet {
		g.pcSet[k] = true
	}
	g.tape = append([]TapeEntry(nil), s.tape...)
	g.pools = make(map[string][]Value, len(s.pools))
	for k, v := range s.pools {
		g.pools[k] = append([]Value(nil), v...)
	}
	g.inPool = copyBoolMapInt(s.inPool)
	g.ghosts = make(map[string]int, len(s.ghosts))
	for k, v := range s.ghosts {
		g.ghosts[k] = v
	}
	g.locks = make(map[string]int, len(s.locks))
	for k, v := range s.locks {
		g.locks[k] = v
	}
	g.covers = make(map[string]bool, len(s.covers))
	for k, v := range s.covers {
		g.covers[k] = v
	}
	g.trace = append([]string(nil), s.trace...)
	g.notes = append([]string(nil), s.notes...)
	return &g
}

func copyBoolMapInt(m map[int]bool) map[int]bool {
	g := make(map[int]bool, len(m))
	for k, v := range m {
		g[k] = v
	}
	return g
}

func (s *State) task() *Task   { return s.tasks[s.cur] }
func (s *State) frame() *Frame { return s.task().top() }
func (s *State) c() *smt.Ctx   { return s.ex.ctx }

func (s *State) assume(t *smt.Term) {
	if t.IsTrue() || s.pcSet[t.ID] {
		return
	}
	// split conjunctions so that the syntactic checks see the parts
	if t.Op == smt.OpAnd {
		s.pcSet[t.ID] = true
		s.assume(t.Args[0])
		s.assume(t.Args[1])
		return
	}
	s.pc = append(s.pc, t)
	s.pcSet[t.ID] = true
}

// ---- heap ----

func (s *State) obj(id int) *Object {
	if o, ok := s.heap[id]; ok {
		return o
	}
	if o, ok := s.ex.base[id]; ok {
		return o
	}
	panic(fmt.Sprintf("dangling object %d", id))
}

func (s *State) newObj(v Value, t types.Type, tag string) int {
	var id int
	if s.isInit {
		s.ex.baseNext++
		id = s.ex.baseNext
	} else {
		// ids are unique across all states of a run, so objects created on
		// different paths can be brought together again (call summaries)
		s.ex.objCounter++
		id = s.ex.objCounter
	}
	s.heap[id] = &Object{Val: v, Typ: t, Tag: tag}
	return id
}

func (s *State) setObj(id int, v Value) {
	o := s.obj(id)
	s.heap[id] = &Object{Val: v, Typ: o.Typ, Tag: o.Tag}
}

func (s *State) newPtr(v Value, t types.Type, tag string) *Ptr {
	return single(&Loc{Obj: s.newObj(v, t, tag)}, s.c())
}

// zero builds the zero value of a type.
func (s *State) zero(t types.Type) Value {
	c := s.c()
	switch u := under(t).(type) {
	case *types.Basic:
		if w, _, ok := intWidth(t); ok {
			return c.Const(w, 0)
		}
		if isString(t) {
			return &Str{}
		}
		if u.Kind() == types.UnsafePointer {
			return &Ptr{Alts: []PtrAlt{{G: c.True}}}
		}
		if isFloat(t) {
			return &Opaque{T: t}
		}
		if u.Kind() == types.UntypedNil {
			return &Ptr{Alts: []PtrAlt{{G: c.True}}}
		}
	case *types.Pointer:
		return &Ptr{Alts: []PtrAlt{{G: c.True}}}
	case *types.Slice:
		z := c.Const(64, 0)
		return &Slice{Base: &Ptr{Alts: []PtrAlt{{G: c.True}}}, Off: z, Len: z, Cap: z}
	case *types.Struct:
		return &Struct{T: u, Fields: make([]Value, u.NumFields())}
	case *types.Array:
		return &Array{Elem: u.Elem(), Elems: make([]Value, int(u.Len()))}
	case *types.Interface:
		return &Iface{Alts: []IfaceAlt{{G: c.True}}}
	case *types.Signature:
		return &Func{}
	case *types.Map:
		return &MapV{Obj: -1}
	case *types.Chan:
		return &ChanV{Obj: -1}
	case *types.Tuple:
		tu := make(Tuple, u.Len())
		for i := range tu {
			tu[i] = s.zero(u.At(i).Type())
		}
		return tu
	}
	panic(fmt.Sprintf("zero: unsupported type %s", t))
}

func (s *State) field(st *Struct, i int) Value {
	if v := st.Fields[i]; v != nil {
		return v
	}
	return s.zero(st.T.Field(i).Type())
}

func (s *State) elem(a *Array, i int) Value {
	if v := a.Elems[i]; v != nil {
		return v
	}
	return s.zero(a.Elem)
}

// mergeV builds ite(g, a, b) over values. ok=false when the shapes cannot be
// merged.
func (s *State) mergeV(g *smt.Term, a, b Value) (Value, bool) {
	c := s.c()
	if g.IsTrue() {
		return a, true
	}
	if g.IsFalse() {
		return b, true
	}
	switch x := a.(type) {
	case *smt.Term:
		y, ok := b.(*smt.Term)
		if !ok || x.W != y.W {
			return nil, false
		}
		return c.Ite(g, x, y), true
	case *Ptr:
		y, ok := b.(*Ptr)
		if !ok {
			return nil, false
		}
		return s.mergePtr(g, x, y), true
	case *Slice:
		y, ok := b.(*Slice)
		if !ok {
			return nil, false
		}
		return &Slice{Base: s.mergePtr(g, x.Base, y.Base), Off: c.Ite(g, x.Off, y.Off),
			Len: c.Ite(g, x.Len, y.Len), Cap: c.Ite(g, x.Cap, y.Cap)}, true
	case *Struct:
		y, ok := b.(*Struct)
		if !ok || len(x.Fields) != len(y.Fields) {
			return nil, false
		}
		if x == y {
			return x, true
		}
		r := &Struct{T: x.T, Fields: make([]Value, len(x.Fields))}
		for i := range x.Fields {
			if x.Fields[i] == nil && y.Fields[i] == nil {
				continue
			}
			v, ok := s.mergeV(g, s.field(x, i), s.field(y, i))
			if !ok {
				return nil, false
			}
			r.Fields[i] = v
		}
		return r, true
	case *Array:
		y, ok := b.(*Array)
		if !ok || x.Abs != nil || y.Abs != nil || len(x.Elems) != len(y.Elems) {
			return nil, false
		}
		if x == y {
			return x, true
		}
		r := &Array{Elem: x.Elem, Elems: make([]Value, len(x.Elems))}
		for i := range x.Elems {
			if x.Elems[i] == nil && y.Elems[i] == nil {
				continue
			}
			v, ok := s.mergeV(g, s.elem(x, i), s.elem(y, i))
			if !ok {
				return nil, false
			}
			r.Elems[i] = v
		}
		return r, true
	case *Str:
		y, ok := b.(*Str)
		if !ok {
			return nil, false
		}
		if x.Opaque != 0 || y.Opaque != 0 {
			if x.Opaque == y.Opaque {
				return x, true
			}
			return nil, false
		}
		xb, yb := s.strBytes(x), s.strBytes(y)
		if len(xb) != len(yb) {
			return nil, false
		}
		r := &Str{Bytes: make([]*smt.Term, len(xb))}
		allc := true
		for i := range xb {
			r.Bytes[i] = c.Ite(g, xb[i], yb[i])
			allc = allc && r.Bytes[i].IsConst()
		}
		if allc {
			bs := make([]byte, len(xb))
			for i := range bs {
				bs[i] = byte(r.Bytes[i].Val)
			}
			return &Str{S: string(bs)}, true
		}
		return r, true
	case *Iface:
		y, ok := b.(*Iface)
		if !ok {
			return nil, false
		}
		r := &Iface{}
		for _, al := range x.Alts {
			r.Alts = append(r.Alts, IfaceAlt{G: c.And(g, al.G), T: al.T, V: al.V})
		}
		ng := c.Not(g)
		for _, al := range y.Alts {
			r.Alts = append(r.Alts, IfaceAlt{G: c.And(ng, al.G), T: al.T, V: al.V})
		}
		return r, true
	case *Func:
		y, ok := b.(*Func)
		if ok && x.Fn == y.Fn && x.Builtin == y.Builtin && len(x.Bindings) == 0 && len(y.Bindings) == 0 {
			return x, true
		}
		return nil, false
	case *MapV:
		y, ok := b.(*MapV)
		if ok && x.Obj == y.Obj {
			return x, true
		}
		return nil, false
	case *ChanV:
		y, ok := b.(*ChanV)
		if ok && x.Obj == y.Obj {
			return x, true
		}
		return nil, false
	case *Opaque:
		return x, true
	case Tuple:
		y, ok := b.(Tuple)
		if !ok || len(x) != len(y) {
			return nil, false
		}
		r := make(Tuple, len(x))
		for i := range x {
			v, ok := s.mergeV(g, x[i], y[i])
			if !ok {
				return nil, false
			}
			r[i] = v
		}
		return r, true
	}
	return nil, false
}

func (s *State) mergePtr(g *smt.Term, x, y *Ptr) *Ptr {
	c := s.c()
	if x == y {
		return x
	}
	r := &Ptr{}
	add := func(gg *smt.Term, l *Loc) {
		if gg.IsFalse() {
			return
		}
		for i := range r.Alts {
			if sameLoc(r.Alts[i].L, l) {
				r.Alts[i].G = c.Or(r.Alts[i].G, gg)
				return
			}
		}
		r.Alts = append(r.Alts, PtrAlt{G: gg, L: l})
	}
	for _, al := range x.Alts {
		add(c.And(g, al.G), al.L)
	}
	ng := c.Not(g)
	for _, al := range y.Alts {
		add(c.And(ng, al.G), al.L)
	}
	if len(r.Alts) == 1 {
		r.Alts[0].G = c.True
	}
	return r
}

func (s *State) strBytes(x *Str) []*smt.Term {
	if x.Bytes != nil {
		return x.Bytes
	}
	c := s.c()
	r := make([]*smt.Term, len(x.S))
	for i := 0; i < len(x.S); i++ {
		r[i] = c.Const(8, uint64(x.S[i]))
	}
	return r
}

// errOOB: a concrete index lies outside a positional array. Through a
// multi-target pointer this marks an alternative whose guard contradicts the
// bounds check that was made on the merged length, so the alternative is
// skipped; through a single-target pointer it is an engine error.
var errOOB = fmt.Errorf("internal: index outside positional array")

// errUnsupported aborts a path as incomplete.
type errUnsupported struct{ msg string }

func (e *errUnsupported) Error() string { return "UNSUPPORTED: " + e.msg }

func unsupported(f string, a ...interface{}) error {
	return &errUnsupported{msg: fmt.Sprintf(f, a...)}
}

// loadAt reads the value at a path below v.
func (s *State) loadAt(v Value, path []Step) (Value, error) {
	c := s.c()
	for pi, st := range path {
		if st.Idx == nil {
			sv, ok := v.(*Struct)
			if !ok {
				return nil, unsupported("field step on %T", v)
			}
			v = s.field(sv, st.F)
			continue
		}
		av, ok := v.(*Array)
		if !ok {
			return nil, unsupported("index step on %T", v)
		}
		if av.Abs != nil {
			if pi != len(path)-1 {
				return nil, unsupported("abstract array with nested path")
			}
			return c.Select(av.Abs, st.Idx), nil
		}
		if st.Idx.IsConst() {
			i := int(st.Idx.Val)
			if i < 0 || i >= len(av.Elems) {
				return nil, errOOB
			}
			v = s.elem(av, i)
			continue
		}
		// symbolic index: multi-way merge over all elements
		rest := path[pi+1:]
		if len(av.Elems) == 0 {
			return nil, fmt.Errorf("internal: symbolic index into empty array")
		}
		guards := make([]*smt.Term, len(av.Elems))
		vals := make([]Value, len(av.Elems))
		for i := range av.Elems {
			ev, err := s.loadAt(s.elem(av, i), rest)
			if err != nil {
				return nil, err
			}
			guards[i] = c.Eq(st.Idx, c.Const(64, uint64(i)))
			vals[i] = ev
		}
		m, ok := s.mergeMany(guards, vals)
		if !ok {
			return nil, unsupported("cannot merge %T over symbolic index", vals[0])
		}
		return m, nil
	}
	return v, nil
}

// storeAt returns v with the value at path replaced by nv, under guard g.
func (s *State) storeAt(v Value, path []Step, nv Value, g *smt.Term) (Value, error) {
	c := s.c()
	if len(path) == 0 {
		if g.IsTrue() {
			return nv, nil
		}
		m, ok := s.mergeV(g, nv, v)
		if !ok {
			return nil, unsupported("guarded store of %T", nv)
		}
		return m, nil
	}
	st := path[0]
	if st.Idx == nil {
		sv, ok := v.(*Struct)
		if !ok {
			return nil, unsupported("field store on %T", v)
		}
		nf, err := s.storeAt(s.field(sv, st.F), path[1:], nv, g)
		if err != nil {
			return nil, err
		}
		r := &Struct{T: sv.T, Fields: append([]Value(nil), sv.Fields...)}
		r.Fields[st.F] = nf
		return r, nil
	}
	av, ok := v.(*Array)
	if !ok {
		return nil, unsupported("index store on %T", v)
	}
	if av.Abs != nil {
		bt, ok := nv.(*smt.Term)
		if !ok || len(path) != 1 || !g.IsTrue() {
			return nil, unsupported("abstract array store")
		}
		return &Array{Elem: av.Elem, Abs: c.Store(av.Abs, st.Idx, bt), Size: av.Size}, nil
	}
	r := &Array{Elem: av.Elem, Elems: append([]Value(nil), av.Elems...)}
	if st.Idx.IsConst() {
		i := int(st.Idx.Val)
		if i < 0 || i >= len(av.Elems) {
			return nil, errOOB
		}
		ne, err := s.storeAt(s.elem(av, i), path[1:], nv, g)
		if err != nil {
			return nil, err
		}
		r.Elems[i] = ne
		return r, nil
	}
	for i := range av.Elems {
		gi := c.And(g, c.Eq(st.Idx, c.Const(64, uint64(i))))
		if gi.IsFalse() {
			continue
		}
		ne, err := s.storeAt(s.elem(av, i), path[1:], nv, gi)
		if err != nil {
			return nil, err
		}
		r.Elems[i] = ne
	}
	return r, nil
}

func (s *State) loadLoc(l *Loc) (Value, error) {
	o := s.obj(l.Obj)
	v, ok := o.Val.(Value)
	if !ok {
		return nil, unsupported("load from non-value object")
	}
	if s.inPool[l.Obj] {
		s.note("use-after-release: load from pooled object %d (%s)", l.Obj, o.Tag)
	}
	return s.loadAt(v, l.Path)
}

func (s *State) storeLoc(l *Loc, nv Value, g *smt.Term) error {
	o := s.obj(l.Obj)
	if s.inPool[l.Obj] {
		s.note("use-after-release: store to pooled object %d (%s)", l.Obj, o.Tag)
	}
	v, err := s.storeAt(o.Val, l.Path, nv, g)
	if err != nil {
		return err
	}
	s.setObj(l.Obj, v)
	return nil
}

func (s *State) note(f string, a ...interface{}) {
	s.notes = append(s.notes, fmt.Sprintf(f, a...))
}

// load reads through a pointer (merging over alternatives).
func (s *State) load(p *Ptr) (Value, error) {
	var guards []*smt.Term
	var vals []Value
	for _, al := range p.Alts {
		if al.L == nil {
			continue // nil dereference is checked by the caller
		}
		v, err := s.loadLoc(al.L)
		if err == errOOB && len(p.Alts) > 1 {
			continue
		}
		if err != nil {
			return nil, err
		}
		guards = append(guards, al.G)
		vals = append(vals, v)
	}
	if len(vals) == 0 {
		return nil, fmt.Errorf("internal: load through nil-only or out-of-range pointer")
	}
	if len(vals) == 1 {
		return vals[0], nil
	}
	m, ok := s.mergeMany(guards, vals)
	if !ok {
		return nil, unsupported("cannot merge loads of %T through a multi-target pointer", vals[0])
	}
	return m, nil
}

// mergeMany merges values under mutually exclusive guards (the last value is
// the default when no guard holds, which the caller has excluded).
func (s *State) mergeMany(guards []*smt.Term, vals []Value) (Value, bool) {
	c := s.c()
	n := len(vals)
	if n == 1 {
		return vals[0], true
	}
	same := true
	for i := 1; i < n; i++ {
		if !sameValue(vals[i], vals[0]) {
			same = false
			break
		}
	}
	if same {
		return vals[0], true
	}
	switch x := vals[0].(type) {
	case *smt.Term:
		acc, ok := vals[n-1].(*smt.Term)
		if !ok {
			return nil, false
		}
		for i := n - 2; i >= 0; i-- {
			t, ok := vals[i].(*smt.Term)
			if !ok || t.W != acc.W {
				return nil, false
			}
			acc = c.Ite(guards[i], t, acc)
		}
		return acc, true
	case *Ptr:
		r := &Ptr{}
		idx := map[string]int{}
		for i, v := range vals {
			pv, ok := v.(*Ptr)
			if !ok {
				return nil, false
			}
			for _, al := range pv.Alts {
				g := c.And(guards[i], al.G)
				if g.IsFalse() {
					continue
				}
				k := "nil"
				if al.L != nil {
					k = al.L.key()
				}
				if j, ok := idx[k]; ok {
					r.Alts[j].G = c.Or(r.Alts[j].G, g)
				} else {
					idx[k] = len(r.Alts)
					r.Alts = append(r.Alts, PtrAlt{G: g, L: al.L})
				}
			}
		}
		if len(r.Alts) == 1 {
			r.Alts[0].G = c.True
		}
		if len(r.Alts) == 0 {
			return nil, false
		}
		return r, true
	case *Slice:
		bases := make([]Value, n)
		offs := make([]Value, n)
		lens := make([]Value, n)
		caps := make([]Value, n)
		for i, v := range vals {
			sv, ok := v.(*Slice)
			if !ok {
				return nil, false
			}
			bases[i], offs[i], lens[i], caps[i] = sv.Base, sv.Off, sv.Len, sv.Cap
		}
		b, ok1 := s.mergeMany(guards, bases)
		o, ok2 := s.mergeMany(guards, offs)
		l, ok3 := s.mergeMany(guards, lens)
		cp, ok4 := s.mergeMany(guards, caps)
		if !(ok1 && ok2 && ok3 && ok4) {
			return nil, false
		}
		return &Slice{Base: b.(*Ptr), Off: o.(*smt.Term), Len: l.(*smt.Term), Cap: cp.(*smt.Term)}, true
	case *Struct:
		r := &Struct{T: x.T, Fields: make([]Value, len(x.Fields))}
		for f := range x.Fields {
			fv := make([]Value, n)
			allNil := true
			for i, v := range vals {
				sv, ok := v.(*Struct)
				if !ok || len(sv.Fields) != len(x.Fields) {
					return nil, false
				}
				if sv.Fields[f] != nil {
					allNil = false
				}
				fv[i] = s.field(sv, f)
			}
			if allNil {
				continue
			}
			m, ok := s.mergeMany(guards, fv)
			if !ok {
				return nil, false
			}
			r.Fields[f] = m
		}
		return r, true
	}
	// generic fallback: right fold with pairwise merges
	acc := vals[n-1]
	for i := n - 2; i >= 0; i-- {
		m, ok := s.mergeV(guards[i], vals[i], acc)
		if !ok {
			return nil, false
		}
		acc = m
	}
	return acc, true
}

func (s *State) store(p *Ptr, v Value) error {
	nonNil := 0
	for _, al := range p.Alts {
		if al.L != nil {
			nonNil++
		}
	}
	for _, al := range p.Alts {
		if al.L == nil {
			continue
		}
		g := al.G
		if nonNil == 1 {
			g = s.c().True
		}
		if err := s.storeLoc(al.L, v, g); err != nil {
			if err == errOOB && len(p.Alts) > 1 {
				continue
			}
			return err
		}
	}
	return nil
}

// nilGuard is the condition under which p is nil.
func (s *State) nilGuard(p *Ptr) *smt.Term {
	c := s.c()
	g := c.False
	for _, al := range p.Alts {
		if al.L == nil {
			g = c.Or(g, al.G)
		}
	}
	return g
}
