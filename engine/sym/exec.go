package sym

import (
	"fmt"
	"go/token"
	"go/types"
	"os"
	"sort"
	"strings"
	"sync"
	"time"

	"golang.org/x/tools/go/ssa"

	"verif/engine/smt"
)

type FuncInfo struct {
	fn    *ssa.Function
	index map[ssa.Value]int
	nvals int
}

// Config bounds one harness run.
type Config struct {
	Unwind       int
	MaxSteps     int
	MaxStates    int
	MaxConc      int // maximum values enumerated when concretising a term
	Tier         int // 0 quick, 1 thorough
	Deadline     time.Time
	MaxViolation int
	// Known holds the ids of open known findings: vKnown(id, region) excludes
	// the region for these and is a no-op for all others.
	Known map[string]bool
	// SchedFork makes the scheduler fork over runnable tasks at switch points.
	SchedFork   bool
	MaxSwitches int
	Debug       bool
	// Concrete runs without a solver (used for init and selftests).
	Concrete bool
	// Pure lists functions (by ssa name, e.g. "github.com/dgrr/http2.hasUpperCase")
	// whose calls are summarised: all callee paths are explored at the call and
	// merged into one state at the return.
	Pure map[string]bool
	// Replace holds the opt-in stubs of this harness (target name -> function).
	Replace map[string]*ssa.Function
}

type Violation struct {
	Kind   string // assert, trap, panic, unwind, ...
	ID     string
	Pos    string
	Tape   []TapeValue
	Trace  []string
	Notes  []string
	Detail string
}

type TapeValue struct {
	Kind string `json:"kind"`
	V    uint64 `json:"v"`
}

type CoverWitness struct {
	ID   string
	Tape []TapeValue
}

// Result is the outcome of one harness run.
type Result struct {
	Harness       string
	Paths         int // completed path states
	Forks         int
	BranchSyn     int // branches decided syntactically
	BranchSolver  int // branches decided by the solver
	Steps         int
	Obligations   int
	Discharged    int
	SynDischarged int
	Violations    []Violation
	Incomplete    []string // unwinding failures, unsupported, unknown
	Covers        map[string]*CoverWitness
	CoverIDs      map[string]bool // all cover ids seen (reached or not)
	KnownSeen     map[string]int  // known-finding regions excluded (count of paths)
	Funcs         map[string]bool
	Stubs         map[string]bool
	Assumes       int
	Samples       [][]TapeValue
	Wall          time.Duration
	Solver        smt.Stats
	Killed        int // paths ended by an infeasible assumption
}

type Exec struct {
	prog    *Program
	ctx     *smt.Ctx
	solver  *smt.Solver
	cfg     Config
	base    map[int]*Object
	globals map[*ssa.Global]int
	finfo   map[*ssa.Function]*FuncInfo
	work    []*State
	nstates int
	res     *Result
	// externs are lazily created opaque values for globals of packages whose
	// init is not run.
	initDone  map[*ssa.Package]bool
	opaqueN   int
	baseNext  int
	lenient   bool
	InitNotes []string
	initSteps int
	mu        sync.Mutex
	cond      *sync.Cond
	active    int
	nworkers  int
	mkSolver  func() *smt.Solver
	stopped   bool
	aggStats  *smt.Stats
	objCounter int
	PathHist   map[string]int
}

// SetSolver installs the solver used for feasibility and obligations.
func (ex *Exec) SetSolver(s *smt.Solver) { ex.solver = s }

// SetSolverFactory makes the exploration parallel: n workers, each with a
// solver of its own from mk. Interpretation is serialised by ex.mu (held
// except while a worker waits for its solver), so the term table and the
// result need no further locking.
func (ex *Exec) SetSolverFactory(n int, mk func() *smt.Solver) {
	ex.nworkers = n
	ex.mkSolver = mk
}

// SolverTokens bounds the number of solver processes working at once in the
// whole process.
var SolverTokens = make(chan struct{}, 15)

type worker struct {
	solver *smt.Solver
}

// query runs one solver call with the interpreter lock released.
func (ex *Exec) query(st *State, as []*smt.Term, want []*smt.Term) (smt.Result, map[*smt.Term]uint64) {
	sv := ex.solver
	if st.w != nil {
		sv = st.w.solver
	}
	if ex.nworkers > 1 {
		ex.mu.Unlock()
		SolverTokens <- struct{}{}
		r, m := sv.Check(as, want)
		<-SolverTokens
		ex.mu.Lock()
		return r, m
	}
	return sv.Check(as, want)
}
func (ex *Exec) Ctx() *smt.Ctx          { return ex.ctx }

func NewExec(p *Program, cfg Config) *Exec {
	ctx := smt.NewCtx()
	ex := &Exec{objCounter: 1 << 20, prog: p, ctx: ctx, cfg: cfg, base: map[int]*Object{}, globals: map[*ssa.Global]int{},
		finfo: map[*ssa.Function]*FuncInfo{}, initDone: map[*ssa.Package]bool{}}
	if cfg.Unwind == 0 {
		ex.cfg.Unwind = 20
	}
	if cfg.MaxSteps == 0 {
		ex.cfg.MaxSteps = 2000000
	}
	if cfg.MaxStates == 0 {
		ex.cfg.MaxStates = 200000
	}
	if cfg.MaxConc == 0 {
		ex.cfg.MaxConc = 70
	}
	if cfg.MaxViolation == 0 {
		ex.cfg.MaxViolation = 5
	}
	if cfg.MaxSwitches == 0 {
		ex.cfg.MaxSwitches = 64
	}
	return ex
}

func (ex *Exec) info(fn *ssa.Function) *FuncInfo {
	if fi, ok := ex.finfo[fn]; ok {
		return fi
	}
	fi := &FuncInfo{fn: fn, index: map[ssa.Value]int{}}
	n := 0
	for _, p := range fn.Params {
		fi.index[p] = n
		n++
	}
	for _, fv := range fn.FreeVars {
		fi.index[fv] = n
		n++
	}
	for _, b := range fn.Blocks {
		for _, in := range b.Instrs {
			if v, ok := in.(ssa.Value); ok {
				fi.index[v] = n
				n++
			}
		}
	}
	fi.nvals = n
	ex.finfo[fn] = fi
	return fi
}

func (ex *Exec) pos(in ssa.Instruction) string {
	p := in.Pos()
	if !p.IsValid() {
		// fall back to the enclosing function
		if fn := in.Parent(); fn != nil {
			return fn.String()
		}
		return "?"
	}
	ps := ex.prog.Fset.Position(p)
	return fmt.Sprintf("%s:%d", ps.Filename, ps.Line)
}

func (ex *Exec) posOf(p token.Pos) string {
	if !p.IsValid() {
		return "?"
	}
	ps := ex.prog.Fset.Position(p)
	return fmt.Sprintf("%s:%d", ps.Filename, ps.Line)
}

// ---- solver interface ----

func (ex *Exec) sat(st *State, extra ...*smt.Term) smt.Result {
	for _, e := range extra {
		if e.IsFalse() {
			return smt.Unsat
		}
		if e.Op == smt.OpNot && st.pcSet[e.Args[0].ID] {
			return smt.Unsat
		}
	}
	if ex.cfg.Concrete {
		for _, e := range extra {
			if !e.IsConst() {
				panic("symbolic condition in concrete mode: " + e.String())
			}
		}
		return smt.Sat
	}
	as := make([]*smt.Term, 0, len(st.pc)+len(extra))
	as = append(as, st.pc...)
	allIn := true
	for _, e := range extra {
		if e.IsTrue() || st.pcSet[e.ID] {
			continue
		}
		allIn = false
		as = append(as, e)
	}
	if allIn {
		return smt.Sat // the state itself is feasible by construction
	}
	r, _ := ex.query(st, as, nil)
	return r
}

func (ex *Exec) model(st *State, extra ...*smt.Term) (smt.Result, []TapeValue) {
	as := append(append([]*smt.Term(nil), st.pc...), extra...)
	var want []*smt.Term
	for _, te := range st.tape {
		if !te.T.IsConst() {
			want = append(want, te.T)
		}
	}
	if ex.cfg.Concrete {
		return smt.Sat, ex.tapeOf(st, nil)
	}
	r, m := ex.query(st, as, want)
	if r != smt.Sat {
		return r, nil
	}
	return r, ex.tapeOf(st, m)
}

func (ex *Exec) tapeOf(st *State, m map[*smt.Term]uint64) []TapeValue {
	out := make([]TapeValue, len(st.tape))
	for i, te := range st.tape {
		v := te.T.Val
		if !te.T.IsConst() {
			v = m[te.T]
		}
		out[i] = TapeValue{Kind: te.Kind, V: v}
	}
	return out
}

// ---- reporting ----

func (ex *Exec) incomplete(st *State, msg string) {
	for _, m := range ex.res.Incomplete {
		if m == msg {
			return
		}
	}
	if len(ex.res.Incomplete) < 50 {
		ex.res.Incomplete = append(ex.res.Incomplete, msg)
	}
}

func (ex *Exec) violation(st *State, kind, id, pos, detail string, tape []TapeValue) {
	for _, v := range ex.res.Violations {
		if v.Kind == kind && v.ID == id && v.Pos == pos {
			return // one witness per obligation site
		}
	}
	ex.res.Violations = append(ex.res.Violations, Violation{Kind: kind, ID: id, Pos: pos, Tape: tape, Detail: detail,
		Trace: append([]string(nil), st.trace...), Notes: append([]string(nil), st.notes...)})
}

// check is a proof obligation: cond must hold on every model of the path
// condition. It returns false when the path cannot continue.
func (ex *Exec) check(st *State, cond *smt.Term, kind, id, pos string) (bool, error) {
	ex.res.Obligations++
	if cond.IsTrue() || st.pcSet[cond.ID] {
		ex.res.Discharged++
		ex.res.SynDischarged++
		return true, nil
	}
	nc := ex.ctx.Not(cond)
	if ex.cfg.Concrete {
		if cond.IsFalse() {
			ex.violation(st, kind, id, pos, "", ex.tapeOf(st, nil))
			return false, nil
		}
		panic("symbolic obligation in concrete mode")
	}
	r, tape := ex.model(st, nc)
	switch r {
	case smt.Unsat:
		ex.res.Discharged++
		return true, nil
	case smt.Unknown:
		ex.incomplete(st, fmt.Sprintf("INCONCLUSIVE obligation %s %s at %s: solver unknown", kind, id, pos))
		st.assume(cond)
		return true, nil
	}
	ex.violation(st, kind, id, pos, "", tape)
	// continue on the side where the obligation holds, if any
	if ex.sat(st, cond) != smt.Sat {
		return false, nil
	}
	st.assume(cond)
	return true, nil
}

// ---- concretisation ----

// concretize returns a concrete value of t for this state, forking one state
// per other feasible value. Must be called before the instruction has side
// effects: the forked states re-execute the instruction from its start.
func (ex *Exec) concretize(st *State, t *smt.Term, what string) (uint64, error) {
	if t.IsConst() {
		return t.Val, nil
	}
	if st.conc != nil {
		if v, ok := st.conc[t.ID]; ok {
			return v, nil
		}
	}
	if ex.cfg.Concrete {
		panic("concretize in concrete mode")
	}
	var vals []uint64
	extra := []*smt.Term{}
	for {
		as := append(append([]*smt.Term(nil), st.pc...), extra...)
		r, m := ex.query(st, as, []*smt.Term{t})
		if r == smt.Unknown {
			ex.incomplete(st, "INCONCLUSIVE concretize "+what)
			break
		}
		if r == smt.Unsat {
			break
		}
		v := m[t]
		vals = append(vals, v)
		extra = append(extra, ex.ctx.Ne(t, ex.ctx.Const(t.W, v)))
		if len(vals) > ex.cfg.MaxConc {
			ex.incomplete(st, fmt.Sprintf("INCOMPLETE bound: more than %d values for %s; remaining values not explored", ex.cfg.MaxConc, what))
			break
		}
	}
	if len(vals) == 0 {
		return 0, errDead
	}
	sort.Slice(vals, func(i, j int) bool { return vals[i] < vals[j] })
	for _, v := range vals[1:] {
		o := st.clone()
		o.setConc(t, v)
		o.assume(ex.ctx.Eq(t, ex.ctx.Const(t.W, v)))
		ex.push(o)
		ex.res.Forks++
	}
	st.setConc(t, vals[0])
	if len(vals) > 1 {
		st.assume(ex.ctx.Eq(t, ex.ctx.Const(t.W, vals[0])))
	}
	return vals[0], nil
}

var errDead = fmt.Errorf("dead path")

func (ex *Exec) push(st *State) {
	if st.sink != nil {
		*st.sink = append(*st.sink, st)
		return
	}
	ex.work = append(ex.work, st)
	if ex.cond != nil {
		ex.cond.Signal()
	}
}

// pickAlt chooses among guarded alternatives, forking for the others. key
// identifies the choice for re-execution.
func (ex *Exec) pickAlt(st *State, key interface{}, guards []*smt.Term) (int, error) {
	if len(guards) == 1 {
		return 0, nil
	}
	for i, g := range guards {
		if st.pcSet[g.ID] {
			return i, nil
		}
	}
	var feas []int
	for i, g := range guards {
		if g.IsFalse() {
			continue
		}
		if g.IsTrue() {
			return i, nil
		}
		r := ex.sat(st, g)
		if r == smt.Unknown {
			ex.incomplete(st, "INCONCLUSIVE alternative guard")
		}
		if r != smt.Unsat {
			feas = append(feas, i)
		}
	}
	if len(feas) == 0 {
		return 0, errDead
	}
	for _, i := range feas[1:] {
		o := st.clone()
		o.assume(guards[i])
		ex.push(o)
		ex.res.Forks++
	}
	if len(feas) > 1 {
		st.assume(guards[feas[0]])
	}
	return feas[0], nil
}

// ---- values of SSA operands ----

func (ex *Exec) constVal(st *State, k *ssa.Const) (Value, error) {
	t := k.Type()
	if k.Value == nil {
		return st.zero(t), nil
	}
	if w, _, ok := intWidth(t); ok {
		if w == 0 {
			return ex.ctx.Bool(constantBool(k)), nil
		}
		return ex.ctx.Const(w, constantUint(k)), nil
	}
	if isString(t) {
		return &Str{S: constantString(k)}, nil
	}
	if isFloat(t) {
		return &Opaque{T: t}, nil
	}
	return nil, unsupported("constant of type %s", t)
}

func (ex *Exec) get(st *State, fr *Frame, v ssa.Value) (Value, error) {
	switch x := v.(type) {
	case *ssa.Const:
		return ex.constVal(st, x)
	case *ssa.Global:
		return ex.globalPtr(st, x)
	case *ssa.Function:
		return &Func{Fn: x}, nil
	case *ssa.Builtin:
		return &Func{Builtin: x}, nil
	}
	i, ok := fr.fn.index[v]
	if !ok {
		return nil, fmt.Errorf("internal: unknown ssa value %s in %s", v.Name(), fr.fn.fn)
	}
	r := fr.locals[i]
	if r == nil {
		return nil, fmt.Errorf("internal: unset ssa value %s (%T) in %s", v.Name(), v, fr.fn.fn)
	}
	return r, nil
}

func (ex *Exec) set(fr *Frame, v ssa.Value, val Value) {
	fr.locals[fr.fn.index[v]] = val
}

// fold replaces a term that this path has fixed to a constant (by
// concretisation) with that constant.
func (st *State) fold(val Value) Value {
	if t, ok := val.(*smt.Term); ok && st.conc != nil && !t.IsConst() {
		if c, ok := st.conc[t.ID]; ok {
			return st.ex.ctx.Const(t.W, c)
		}
	}
	return val
}

func (ex *Exec) globalPtr(st *State, g *ssa.Global) (Value, error) {
	if id, ok := ex.globals[g]; ok {
		return single(&Loc{Obj: id}, ex.ctx), nil
	}
	// Globals are created in the base heap on first use: up front for the
	// initialised packages, lazily (with a modelled value) for all others.
	// Ids come from the base counter, which no state allocates from.
	ex.baseNext++
	id := ex.baseNext
	et := deref(g.Type())
	var val Value = st.zero(et)
	if g.Pkg != nil && !ex.prog.RunInit[g.Pkg.Pkg.Path()] {
		// not initialised by us: model what we can
		val = ex.externGlobal(st, g, et)
	}
	ex.base[id] = &Object{Val: val, Typ: et, Tag: "global " + g.String()}
	ex.globals[g] = id
	return single(&Loc{Obj: id}, ex.ctx), nil
}

// externGlobal models a global of a package whose init the engine does not
// run: error variables become distinct opaque error values.
func (ex *Exec) externGlobal(st *State, g *ssa.Global, et types.Type) Value {
	if types.Identical(et, types.Universe.Lookup("error").Type()) {
		ot := ex.prog.ErrorStr
		ex.baseNext++
		oid := ex.baseNext
		ex.base[oid] = &Object{Val: &Struct{T: under(ot).(*types.Struct), Fields: []Value{&Str{S: g.String()}}}, Typ: ot, Tag: "extern " + g.String()}
		return &Iface{Alts: []IfaceAlt{{G: ex.ctx.True, T: types.NewPointer(ot), V: single(&Loc{Obj: oid}, ex.ctx)}}}
	}
	return st.zero(et)
}

// ---- running ----

func (ex *Exec) newState() *State {
	ex.nstates++
	return &State{ex: ex, id: ex.nstates, heap: map[int]*Object{}, nextObj: 1 << 20, pcSet: map[int]bool{},
		pools: map[string][]Value{}, inPool: map[int]bool{}, ghosts: map[string]int{}, locks: map[string]int{}, covers: map[string]bool{}}
}

func (st *State) setConc(t *smt.Term, v uint64) {
	m := make(map[int]uint64, len(st.conc)+1)
	for k, x := range st.conc {
		m[k] = x
	}
	m[t.ID] = v
	st.conc = m
}

func (st *State) setAlt(key interface{}, i int) {
	m := make(map[interface{}]int, len(st.alt)+1)
	for k, x := range st.alt {
		m[k] = x
	}
	m[key] = i
	st.alt = m
}

func (ex *Exec) pushFrame(st *State, fn *ssa.Function, args []Value, bindings []Value, retSlot int) (*Frame, error) {
	if len(fn.Blocks) == 0 {
		return nil, unsupported("call of function without body: %s", fn)
	}
	fi := ex.info(fn)
	fr := &Frame{fn: fi, block: fn.Blocks[0], locals: make([]Value, fi.nvals), retSlot: retSlot}
	if len(args) != len(fn.Params) {
		return nil, fmt.Errorf("internal: %s called with %d args, want %d", fn, len(args), len(fn.Params))
	}
	for i, p := range fn.Params {
		fr.locals[fi.index[p]] = args[i]
	}
	if len(bindings) != len(fn.FreeVars) {
		return nil, fmt.Errorf("internal: %s bound with %d vars, want %d", fn, len(bindings), len(fn.FreeVars))
	}
	for i, fv := range fn.FreeVars {
		fr.locals[fi.index[fv]] = bindings[i]
	}
	t := st.task()
	if len(t.frames) > 200 {
		return nil, unsupported("call depth exceeds 200 in %s", fn)
	}
	t.frames = append(t.frames, fr)
	if ex.res != nil && ex.res.Funcs != nil {
		ex.res.Funcs[fn.String()] = true
	}
	return fr, nil
}

// RunHarness explores every path of the named harness function.
func (ex *Exec) RunHarness(fn *ssa.Function) *Result {
	t0 := time.Now()
	ex.res = &Result{Harness: fn.Name(), Covers: map[string]*CoverWitness{}, CoverIDs: map[string]bool{}, KnownSeen: map[string]int{},
		Funcs: map[string]bool{}, Stubs: map[string]bool{}}
	st := ex.newState()
	st.tasks = []*Task{{id: 0, name: "main"}}
	if _, err := ex.pushFrame(st, fn, nil, nil, -1); err != nil {
		ex.incomplete(st, err.Error())
		return ex.res
	}
	ex.work = []*State{st}
	if os.Getenv("GOSMT_PROGRESS") != "" {
		stop := make(chan struct{})
		defer close(stop)
		go func() {
			for {
				select {
				case <-stop:
					return
				case <-time.After(20 * time.Second):
					fmt.Fprintf(os.Stderr, "progress %s: %.0fs paths=%d pending=%d forks=%d steps=%d violations=%d\n", fn.Name(), time.Since(t0).Seconds(), ex.res.Paths, len(ex.work), ex.res.Forks, ex.res.Steps, len(ex.res.Violations))
				}
			}
		}()
	}
	ex.explore()
	ex.res.Wall = time.Since(t0)
	if ex.aggStats != nil {
		ex.res.Solver = *ex.aggStats
	} else if ex.solver != nil {
		ex.res.Solver = ex.solver.Stats
	}
	return ex.res
}

func (ex *Exec) explore() {
	if ex.nworkers <= 1 || ex.mkSolver == nil || ex.cfg.Concrete {
		ex.nworkers = 1
		for len(ex.work) > 0 {
			st := ex.work[len(ex.work)-1]
			ex.work = ex.work[:len(ex.work)-1]
			if ex.limits(st) {
				return
			}
			ex.runState(st)
		}
		return
	}
	ex.cond = sync.NewCond(&ex.mu)
	var wg sync.WaitGroup
	var all []*worker
	for i := 0; i < ex.nworkers; i++ {
		w := &worker{solver: ex.mkSolver()}
		all = append(all, w)
		wg.Add(1)
		go func() {
			defer wg.Done()
			ex.mu.Lock()
			defer ex.mu.Unlock()
			defer func() {
				if r := recover(); r != nil {
					ex.incomplete(nil, fmt.Sprintf("ENGINE: worker panic: %v", r))
					ex.stopped = true
					ex.work = nil
					ex.cond.Broadcast()
				}
			}()
			for {
				for len(ex.work) == 0 && ex.active > 0 && !ex.stopped {
					ex.cond.Wait()
				}
				if len(ex.work) == 0 || ex.stopped {
					ex.cond.Broadcast()
					return
				}
				st := ex.work[len(ex.work)-1]
				ex.work = ex.work[:len(ex.work)-1]
				if ex.limits(st) {
					ex.stopped = true
					ex.cond.Broadcast()
					return
				}
				ex.active++
				st.w = w
				ex.runState(st)
				ex.active--
				ex.cond.Broadcast()
			}
		}()
	}
	wg.Wait()
	// aggregate solver statistics
	agg := smt.Stats{PerBE: map[string]*smt.BEStats{}}
	for _, w := range all {
		ws := w.solver.Stats
		agg.Queries += ws.Queries
		agg.Sat += ws.Sat
		agg.Unsat += ws.Unsat
		agg.Unknown += ws.Unknown
		agg.CacheHits += ws.CacheHits
		agg.Errors += ws.Errors
		agg.Time += ws.Time
		agg.Restarts += ws.Restarts
		agg.CrossOK += ws.CrossOK
		agg.CrossBad += ws.CrossBad
		for n, b := range ws.PerBE {
			a := agg.PerBE[n]
			if a == nil {
				a = &smt.BEStats{}
				agg.PerBE[n] = a
			}
			a.Queries += b.Queries
			a.Time += b.Time
			a.Unknown += b.Unknown
		}
		w.solver.Close()
	}
	ex.aggStats = &agg
}

// limits reports (and records) that a global bound stops the exploration.
func (ex *Exec) limits(st *State) bool {
	if !ex.cfg.Deadline.IsZero() && time.Now().After(ex.cfg.Deadline) {
		ex.incomplete(st, fmt.Sprintf("INCOMPLETE: deadline reached with %d states pending", len(ex.work)+1))
		ex.work = nil
		return true
	}
	if ex.nstates > ex.cfg.MaxStates {
		ex.incomplete(st, fmt.Sprintf("INCOMPLETE: more than %d states", ex.cfg.MaxStates))
		ex.work = nil
		return true
	}
	if len(ex.res.Violations) >= ex.cfg.MaxViolation {
		ex.incomplete(st, fmt.Sprintf("stopped after %d violations with %d states pending", len(ex.res.Violations), len(ex.work)+1))
		ex.work = nil
		return true
	}
	return false
}

func (ex *Exec) runState(st *State) {
	for !st.done {
		st.steps++
		ex.res.Steps++
		if st.steps > ex.cfg.MaxSteps {
			ex.incomplete(st, "INCOMPLETE: step limit on one path")
			return
		}
		err := ex.step(st)
		if err == nil {
			continue
		}
		if err == errDead {
			ex.res.Killed++
			return
		}
		if err == errPathEnd {
			return
		}
		if u, ok := err.(*errUnsupported); ok {
			ex.incomplete(st, u.Error()+" at "+ex.where(st))
			return
		}
		ex.incomplete(st, "ENGINE: "+err.Error()+" at "+ex.where(st))
		return
	}
	ex.finishPath(st)
}

var errPathEnd = fmt.Errorf("path end")

func (ex *Exec) where(st *State) string {
	if len(st.tasks) == 0 || len(st.task().frames) == 0 {
		return "?"
	}
	var parts []string
	fs := st.task().frames
	for i := len(fs) - 1; i >= 0 && len(parts) < 4; i-- {
		fr := fs[i]
		if fr.pc < len(fr.block.Instrs) {
			parts = append(parts, ex.pos(fr.block.Instrs[fr.pc]))
		} else {
			parts = append(parts, fr.fn.fn.String())
		}
	}
	return strings.Join(parts, " <- ")
}

func (ex *Exec) finishPath(st *State) {
	ex.res.Paths++
	if ex.PathHist != nil {
		k := ""
		for _, te := range st.tape {
			if te.Kind == "range" {
				k += fmt.Sprintf("%d,", te.T.Val)
			}
		}
		ex.PathHist[k+fmt.Sprintf(" pc=%d", len(st.pc)/10*10)]++
	}
	for _, n := range st.notes {
		if strings.HasPrefix(n, "use-after-release") || strings.HasPrefix(n, "double-release") {
			// ghost pool discipline failures are obligations
			_, tape := ex.model(st)
			ex.violation(st, "pool", n, "", n, tape)
		}
	}
	// record cover witnesses
	for id := range st.covers {
		if _, ok := ex.res.Covers[id]; !ok {
			r, tape := ex.model(st)
			if r == smt.Sat {
				ex.res.Covers[id] = &CoverWitness{ID: id, Tape: tape}
			}
		}
	}
	if len(ex.res.Samples) < 3 {
		if r, tape := ex.model(st); r == smt.Sat {
			ex.res.Samples = append(ex.res.Samples, tape)
		}
	}
}
