package sym

import (
	"fmt"
	"go/token"
	"go/types"

	"golang.org/x/tools/go/ssa"

	"verif/engine/smt"
)

func (st *State) chanObj(c *ChanV) *ChanObj {
	if c.Obj < 0 {
		return nil
	}
	return st.obj(c.Obj).Val.(*ChanObj)
}

func (st *State) setChan(c *ChanV, o *ChanObj) { st.setObj(c.Obj, o) }

func (ex *Exec) doGo(st *State, fr *Frame, x *ssa.Go) error {
	d, err := ex.prepareCall(st, fr, &x.Call)
	if err != nil {
		return err
	}
	if d.method != nil {
		return unsupported("go with interface method")
	}
	f := d.fn.(*Func)
	if f.Fn == nil {
		return unsupported("go with builtin")
	}
	nt := &Task{id: len(st.tasks), name: f.Fn.String()}
	st.tasks = append(st.tasks, nt)
	cur := st.cur
	st.cur = nt.id
	_, err = ex.pushFrame(st, f.Fn, d.args, f.Bindings, -1)
	st.cur = cur
	if err != nil {
		return err
	}
	fr.pc++
	return nil
}

func (ex *Exec) block(st *State) error {
	st.task().status = taskBlocked
	return ex.schedule(st)
}

func (ex *Exec) doSend(st *State, fr *Frame, x *ssa.Send) error {
	cv, err := ex.get(st, fr, x.Chan)
	if err != nil {
		return err
	}
	v, err := ex.get(st, fr, x.X)
	if err != nil {
		return err
	}
	ch := cv.(*ChanV)
	o := st.chanObj(ch)
	if o == nil {
		return ex.block(st)
	}
	if o.Closed {
		_, tape := ex.model(st)
		ex.violation(st, "trap", "send on closed channel", ex.pos(x), "", tape)
		return errPathEnd
	}
	if o.Cap == 0 {
		return unsupported("send on unbuffered channel")
	}
	if len(o.Buf) >= o.Cap {
		return ex.block(st)
	}
	n := *o
	n.Buf = append(append([]Value(nil), o.Buf...), v)
	st.setChan(ch, &n)
	fr.pc++
	return nil
}

func (ex *Exec) doRecv(st *State, fr *Frame, x *ssa.UnOp, ch *ChanV) (Value, error) {
	o := st.chanObj(ch)
	if o == nil || (len(o.Buf) == 0 && !o.Closed) {
		return nil, ex.block(st)
	}
	c := ex.ctx
	var v Value
	ok := true
	if len(o.Buf) > 0 {
		v = o.Buf[0]
		n := *o
		n.Buf = append([]Value(nil), o.Buf[1:]...)
		st.setChan(ch, &n)
	} else {
		v = st.zero(o.Elem)
		ok = false
	}
	if x.CommaOk {
		return Tuple{v, c.Bool(ok)}, nil
	}
	return v, nil
}

func (ex *Exec) chanClose(st *State, ch *ChanV) (Value, error) {
	o := st.chanObj(ch)
	if o == nil || o.Closed {
		_, tape := ex.model(st)
		ex.violation(st, "trap", "close of nil or closed channel", ex.where(st), "", tape)
		return nil, errPathEnd
	}
	n := *o
	n.Closed = true
	st.setChan(ch, &n)
	return Tuple{}, nil
}

func (ex *Exec) doSelect(st *State, fr *Frame, x *ssa.Select) error {
	c := ex.ctx
	var ready []int
	chans := make([]*ChanV, len(x.States))
	for i, s := range x.States {
		cv, err := ex.get(st, fr, s.Chan)
		if err != nil {
			return err
		}
		ch := cv.(*ChanV)
		chans[i] = ch
		o := st.chanObj(ch)
		if o == nil || o.Never {
			continue
		}
		if s.Dir == types.SendOnly {
			if o.Closed {
				ready = append(ready, i) // will panic
			} else if o.Cap > 0 && len(o.Buf) < o.Cap {
				ready = append(ready, i)
			}
		} else if len(o.Buf) > 0 || o.Closed {
			ready = append(ready, i)
		}
	}
	if len(ready) == 0 {
		if x.Blocking {
			return ex.block(st)
		}
		res := Tuple{c.Const(64, ^uint64(0)), c.False}
		for _, s := range x.States {
			if s.Dir == types.RecvOnly {
				res = append(res, st.zero(under(s.Chan.Type()).(*types.Chan).Elem()))
			}
		}
		ex.set(fr, x, res)
		fr.pc++
		return nil
	}
	pick := ready[0]
	if len(ready) > 1 {
		i, err := ex.choose(st, "select", len(ready))
		if err != nil {
			return err
		}
		pick = ready[i]
	}
	s := x.States[pick]
	ch := chans[pick]
	o := st.chanObj(ch)
	res := Tuple{c.Const(64, uint64(pick)), c.False}
	var recvd Value
	if s.Dir == types.SendOnly {
		if o.Closed {
			_, tape := ex.model(st)
			ex.violation(st, "trap", "send on closed channel", ex.pos(x), "", tape)
			return errPathEnd
		}
		v, err := ex.get(st, fr, s.Send)
		if err != nil {
			return err
		}
		n := *o
		n.Buf = append(append([]Value(nil), o.Buf...), v)
		st.setChan(ch, &n)
	} else {
		if len(o.Buf) > 0 {
			recvd = o.Buf[0]
			n := *o
			n.Buf = append([]Value(nil), o.Buf[1:]...)
			st.setChan(ch, &n)
			res[1] = c.True
		} else {
			recvd = st.zero(o.Elem)
		}
	}
	for i, s2 := range x.States {
		if s2.Dir == types.RecvOnly {
			if i == pick {
				res = append(res, recvd)
			} else {
				res = append(res, st.zero(under(s2.Chan.Type()).(*types.Chan).Elem()))
			}
		}
	}
	ex.set(fr, x, res)
	fr.pc++
	return nil
}

// choose forks over n concrete alternatives (scheduler and select choices).
func (ex *Exec) choose(st *State, key interface{}, n int) (int, error) {
	if n <= 1 {
		return 0, nil
	}
	k := fmt.Sprintf("%v#%d", key, st.nchoice)
	if st.alt != nil {
		if i, ok := st.alt[k]; ok {
			st.nchoice++
			return i, nil
		}
	}
	if !ex.cfg.SchedFork || st.switches >= ex.cfg.MaxSwitches {
		st.nchoice++
		return 0, nil
	}
	st.switches++
	for i := 1; i < n; i++ {
		o := st.clone()
		o.setAlt(k, i)
		ex.push(o)
		ex.res.Forks++
	}
	st.setAlt(k, 0)
	st.nchoice++
	return 0, nil
}

// ready reports whether a blocked task could make progress now.
func (ex *Exec) ready(st *State, t *Task) bool {
	if t.status == taskDone || len(t.frames) == 0 {
		return false
	}
	if t.status == taskRunnable {
		return true
	}
	fr := t.top()
	in := fr.block.Instrs[fr.pc]
	chanReadyRecv := func(v ssa.Value) bool {
		cv, err := ex.get(st, fr, v)
		if err != nil {
			return true
		}
		o := st.chanObj(cv.(*ChanV))
		return o != nil && !o.Never && (len(o.Buf) > 0 || o.Closed)
	}
	chanReadySend := func(v ssa.Value) bool {
		cv, err := ex.get(st, fr, v)
		if err != nil {
			return true
		}
		o := st.chanObj(cv.(*ChanV))
		return o != nil && (o.Closed || len(o.Buf) < o.Cap)
	}
	switch x := in.(type) {
	case *ssa.Send:
		return chanReadySend(x.Chan)
	case *ssa.UnOp:
		if x.Op == token.ARROW {
			return chanReadyRecv(x.X)
		}
	case *ssa.Select:
		for _, s := range x.States {
			if s.Dir == types.SendOnly && chanReadySend(s.Chan) {
				return true
			}
			if s.Dir == types.RecvOnly && chanReadyRecv(s.Chan) {
				return true
			}
		}
		return false
	case *ssa.Call:
		// blocked in a native model (mutex)
		if t.waitLock != "" {
			return st.locks[t.waitLock] == 0
		}
	case *ssa.RunDefers, *ssa.Defer:
		if t.waitLock != "" {
			return st.locks[t.waitLock] == 0
		}
	}
	return true
}

// schedule picks the next task to run. It is called when the current task
// blocks, finishes, or yields.
func (ex *Exec) schedule(st *State) error {
	var cands []int
	n := len(st.tasks)
	for k := 1; k <= n; k++ {
		i := (st.cur + k) % n
		t := st.tasks[i]
		if t.yielding {
			continue
		}
		if ex.ready(st, t) {
			cands = append(cands, i)
		}
	}
	if len(cands) == 0 {
		main := st.tasks[0]
		if main.yielding {
			main.yielding = false
			main.status = taskRunnable
			st.cur = 0
			main.top().pc++ // past the vQuiesce call
			return nil
		}
		if main.status == taskDone {
			st.done = true
			return nil
		}
		// the harness task itself is stuck
		_, tape := ex.model(st)
		ex.violation(st, "deadlock", "harness task blocked with no runnable task", ex.whereTask(st, main), ex.blockedSummary(st), tape)
		return errPathEnd
	}
	pick := cands[0]
	if len(cands) > 1 {
		i, err := ex.choose(st, "sched", len(cands))
		if err != nil {
			return err
		}
		pick = cands[i]
	}
	st.cur = pick
	st.tasks[pick].status = taskRunnable
	return nil
}

func (ex *Exec) whereTask(st *State, t *Task) string {
	if len(t.frames) == 0 {
		return "(finished)"
	}
	fr := t.top()
	if fr.pc < len(fr.block.Instrs) {
		return ex.pos(fr.block.Instrs[fr.pc])
	}
	return fr.fn.fn.String()
}

func (ex *Exec) blockedSummary(st *State) string {
	s := ""
	for _, t := range st.tasks {
		if t.status == taskDone {
			continue
		}
		s += fmt.Sprintf("[task %d %s at %s] ", t.id, t.name, ex.whereTask(st, t))
	}
	return s
}

// blockedTasks lists the tasks other than main that have not finished.
func (st *State) liveTasks() []*Task {
	var out []*Task
	for _, t := range st.tasks[1:] {
		if t.status != taskDone {
			out = append(out, t)
		}
	}
	return out
}

var _ = smt.Unsat
