package sym

import (
	"fmt"
	"go/token"
	"go/types"
	"os"
	"path/filepath"
	"regexp"
	"sort"
	"strconv"
	"strings"

	"golang.org/x/tools/go/packages"
	"golang.org/x/tools/go/ssa"
	"golang.org/x/tools/go/ssa/ssautil"
)

// HarnessCfg comes from the "//verif:harness k=v ..." directive of a harness.
type HarnessCfg struct {
	Name     string
	Prop     string
	Unwind   int
	UnwindT  int // thorough tier override
	Sched    bool
	Tier     string // "", "quick", "thorough": restricts the tiers the harness runs in
	Timeout  int    // seconds, per tier run
	TimeoutT int
	MaxConc  int
	Note     string
	Pure     []string // functions summarised by path merging at their return
	Use      []string // opt-in stubs (names of //verif:stub functions)
	MaxStates int
}

type Program struct {
	SSA      *ssa.Program
	Fset     *token.FileSet
	Pkg      *ssa.Package
	Sizes    types.Sizes
	Replace  map[string]*ssa.Function
	RunInit  map[string]bool
	// Stubs are opt-in replacements: harness function name -> target.
	Stubs    map[string]string
	// Stale maps harness source files that do not type-check against the
	// current tree to the first error.
	Stale    map[string]string
	Harness  map[string]*HarnessCfg
	Files    map[string]string // overlay path -> real path of harness sources
	SrcHash  map[string]string
	RepoDir  string
	ErrorStr *types.Named // errors.errorString

	AbstractMake bool
}

const repoPkgPath = "github.com/dgrr/http2"

var directiveRe = regexp.MustCompile(`(?m)^//verif:(replace|stub|harness)\s+(.*)\n(?://.*\n)*func\s+(?:\([^)]*\)\s*)?([A-Za-z0-9_]+)`)

// Load type-checks /repo with the harness sources overlaid and builds SSA.
func Load(repoDir, harnessDir string) (*Program, error) {
	overlay := map[string][]byte{}
	files := map[string]string{}
	type repl struct{ target, fn, file string }
	var repls, stubs []repl
	harness := map[string]*HarnessCfg{}
	ents, err := os.ReadDir(harnessDir)
	if err != nil {
		return nil, err
	}
	for _, e := range ents {
		if e.IsDir() || !strings.HasSuffix(e.Name(), ".go") || strings.HasSuffix(e.Name(), "_test.go") {
			continue
		}
		src, err := os.ReadFile(filepath.Join(harnessDir, e.Name()))
		if err != nil {
			return nil, err
		}
		vp := filepath.Join(repoDir, "zz_verif_"+e.Name())
		overlay[vp] = src
		files[vp] = filepath.Join(harnessDir, e.Name())
		for _, m := range directiveRe.FindAllStringSubmatch(string(src), -1) {
			switch m[1] {
			case "replace":
				repls = append(repls, repl{strings.TrimSpace(m[2]), m[3], filepath.Join(harnessDir, e.Name())})
			case "stub":
				stubs = append(stubs, repl{strings.TrimSpace(m[2]), m[3], filepath.Join(harnessDir, e.Name())})
			case "harness":
				hc := &HarnessCfg{Name: m[3]}
				for _, kv := range strings.Fields(m[2]) {
					k, v, _ := strings.Cut(kv, "=")
					switch k {
					case "prop":
						hc.Prop = v
					case "unwind":
						hc.Unwind, _ = strconv.Atoi(v)
					case "unwindT":
						hc.UnwindT, _ = strconv.Atoi(v)
					case "sched":
						hc.Sched = v == "fork"
					case "tier":
						hc.Tier = v
					case "timeout":
						hc.Timeout, _ = strconv.Atoi(v)
					case "timeoutT":
						hc.TimeoutT, _ = strconv.Atoi(v)
					case "maxconc":
						hc.MaxConc, _ = strconv.Atoi(v)
					case "pure":
						hc.Pure = strings.Split(v, ",")
					case "use":
						hc.Use = strings.Split(v, ",")
					case "maxstates":
						hc.MaxStates, _ = strconv.Atoi(v)
					}
				}
				harness[hc.Name] = hc
			}
		}
	}
	// go/packages looks "go" up on this process's PATH: it must be go1.26.8,
	// which this binary and x/tools v0.50.0 were built for.
	if !strings.HasPrefix(os.Getenv("PATH"), "/opt/veriftools/go1.26.8/bin:") {
		os.Setenv("PATH", "/opt/veriftools/go1.26.8/bin:"+os.Getenv("PATH"))
	}
	cfg := &packages.Config{Mode: packages.LoadAllSyntax, Dir: repoDir, Overlay: overlay,
		Env: append(os.Environ(), "GOFLAGS=-mod=mod", "GOPROXY=off", "GOSUMDB=off", "GOTOOLCHAIN=local",
			"PATH=/opt/veriftools/go1.26.8/bin:"+os.Getenv("PATH"))}
	var pkgs []*packages.Package
	stale := map[string]string{}
	for attempt := 0; ; attempt++ {
		var err error
		pkgs, err = packages.Load(cfg, ".")
		if err != nil {
			return nil, err
		}
		nerr := 0
		var msgs []string
		badHarness := map[string]string{}
		other := false
		packages.Visit(pkgs, nil, func(p *packages.Package) {
			for _, e := range p.Errors {
				nerr++
				if len(msgs) < 20 {
					msgs = append(msgs, e.Error())
				}
				file := e.Pos
				if i := strings.Index(file, ":"); i >= 0 {
					file = file[:i]
				}
				if _, isHarness := overlay[file]; isHarness && !strings.HasSuffix(file, "zz_verif_prims.go") {
					if _, ok := badHarness[file]; !ok {
						badHarness[file] = e.Msg
					}
				} else {
					other = true
				}
			}
		})
		if nerr == 0 {
			break
		}
		// A harness file that no longer type-checks against this tree (it
		// names an internal field or function that was renamed or removed) is
		// set aside, so that the other harnesses still run; the check reports
		// it as stale and is inconclusive for it.
		if other || len(badHarness) == 0 || attempt >= 4 {
			return nil, &BuildError{Msgs: msgs}
		}
		for f, m := range badHarness {
			stale[files[f]] = m
			delete(overlay, f)
			delete(files, f)
		}
	}
	prog, spkgs := ssautil.AllPackages(pkgs, ssa.InstantiateGenerics)
	prog.Build()
	p := &Program{SSA: prog, Fset: prog.Fset, Pkg: spkgs[0], Replace: map[string]*ssa.Function{}, RunInit: map[string]bool{},
		Harness: harness, Files: files, RepoDir: repoDir, Stale: stale, Sizes: types.SizesFor("gc", "amd64")}
	if p.Pkg == nil || p.Pkg.Pkg.Path() != repoPkgPath {
		return nil, fmt.Errorf("unexpected root package")
	}
	for _, r := range repls {
		if _, isStale := stale[r.file]; isStale {
			continue
		}
		fn := p.Pkg.Func(r.fn)
		if fn == nil {
			return nil, fmt.Errorf("verif:replace %s: harness function %s not found", r.target, r.fn)
		}
		p.Replace[r.target] = fn
	}
	p.Stubs = map[string]string{}
	for _, r := range stubs {
		if _, isStale := stale[r.file]; isStale {
			continue
		}
		if p.Pkg.Func(r.fn) == nil {
			return nil, fmt.Errorf("verif:stub %s: harness function %s not found", r.target, r.fn)
		}
		p.Stubs[r.fn] = r.target
	}
	for _, ip := range []string{repoPkgPath, repoPkgPath + "/http2utils", "io", "bufio", "bytes"} {
		p.RunInit[ip] = true
	}
	if ep := prog.ImportedPackage("errors"); ep != nil {
		if t := ep.Type("errorString"); t != nil {
			p.ErrorStr = t.Type().(*types.Named)
		}
	}
	if p.ErrorStr == nil {
		return nil, fmt.Errorf("errors.errorString not found")
	}
	return p, nil
}

type BuildError struct{ Msgs []string }

func (b *BuildError) Error() string { return "cannot build /repo: " + strings.Join(b.Msgs, "; ") }

// allowBody reports whether functions of the package are executed from their
// SSA bodies. Everything else needs a model.
func (p *Program) allowBody(path string) bool {
	switch {
	case path == repoPkgPath, path == repoPkgPath+"/http2utils":
		return true
	case path == "io", path == "bufio", path == "bytes", path == "errors", path == "sort", path == "slices",
		path == "strings", path == "unicode/utf8", path == "math/bits", path == "encoding/binary", path == "cmp",
		path == "iter", path == "container/list", path == "internal/byteorder", path == "math":
		return true
	}
	return false
}

// HasProp reports whether the harness serves the property ("prop=C16,C05").
func (hc *HarnessCfg) HasProp(p string) bool {
	for _, x := range strings.Split(hc.Prop, ",") {
		if x == p {
			return true
		}
	}
	return false
}

// HarnessNames lists the harness entry points, optionally for one property.
func (p *Program) HarnessNames(prop string) []string {
	var out []string
	for name, hc := range p.Harness {
		if prop == "" || hc.HasProp(prop) {
			if p.Pkg.Func(name) != nil {
				out = append(out, name)
			}
		}
	}
	sort.Strings(out)
	return out
}
