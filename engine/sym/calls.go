package sym

import (
	"fmt"
	"go/types"
	"strings"

	"golang.org/x/tools/go/ssa"

	"verif/engine/smt"
)

// prepareCall evaluates the callee and arguments of a call site.
func (ex *Exec) prepareCall(st *State, fr *Frame, call *ssa.CallCommon) (deferred, error) {
	var d deferred
	for _, a := range call.Args {
		v, err := ex.get(st, fr, a)
		if err != nil {
			return d, err
		}
		d.args = append(d.args, v)
	}
	if call.IsInvoke() {
		rv, err := ex.get(st, fr, call.Value)
		if err != nil {
			return d, err
		}
		d.recv = rv
		d.method = call.Method
		return d, nil
	}
	fv, err := ex.get(st, fr, call.Value)
	if err != nil {
		return d, err
	}
	d.fn = fv
	return d, nil
}

// finishNative stores the result of a natively modelled call and advances.
func (ex *Exec) finishNative(st *State, retSlot int, res Value, isDefer bool) {
	fr := st.frame()
	if retSlot >= 0 {
		if res == nil {
			res = Tuple{}
		}
		fr.locals[retSlot] = res
	}
	if !isDefer {
		fr.pc++
	}
}

// callValue performs a prepared call. retSlot is the caller's value slot, or
// -1 for deferred calls (which also do not advance the caller's pc).
func (ex *Exec) callValue(st *State, d deferred, retSlot int) error {
	isDefer := retSlot == -1
	if d.method != nil {
		iv := d.recv.(*Iface)
		guards := make([]*smt.Term, len(iv.Alts))
		for i, al := range iv.Alts {
			guards[i] = al.G
		}
		i, err := ex.pickAlt(st, iv, guards)
		if err != nil {
			return err
		}
		al := iv.Alts[i]
		if al.T == nil {
			_, tape := ex.model(st)
			ex.violation(st, "trap", "nil dereference", ex.where(st), "method call on nil interface: "+d.method.Name(), tape)
			return errPathEnd
		}
		ms := ex.prog.SSA.MethodSets.MethodSet(al.T)
		sel := ms.Lookup(d.method.Pkg(), d.method.Name())
		if sel == nil {
			return fmt.Errorf("internal: type %s has no method %s", al.T, d.method.Name())
		}
		fn := ex.prog.SSA.MethodValue(sel)
		if fn == nil {
			return unsupported("abstract method %s on %s", d.method.Name(), al.T)
		}
		args := append([]Value{al.V}, d.args...)
		return ex.callFunc(st, fn, args, nil, retSlot, isDefer)
	}
	f := d.fn.(*Func)
	switch {
	case f.Builtin != nil:
		res, err := ex.builtin(st, f.Builtin, d.args)
		if err != nil {
			return err
		}
		if res == blocked {
			return nil
		}
		ex.finishNative(st, retSlot, res, isDefer)
		return nil
	case f.Fn != nil:
		return ex.callFunc(st, f.Fn, d.args, f.Bindings, retSlot, isDefer)
	}
	_, tape := ex.model(st)
	ex.violation(st, "trap", "nil dereference", ex.where(st), "call of nil function", tape)
	return errPathEnd
}

var blocked = &Opaque{ID: -1}

func (ex *Exec) callFunc(st *State, fn *ssa.Function, args, bindings []Value, retSlot int, isDefer bool) error {
	name := fn.String()
	if rep, ok := ex.cfg.Replace[name]; ok {
		ex.res.Stubs[name] = true
		fn = rep
		name = fn.String()
	} else if rep, ok := ex.prog.Replace[name]; ok {
		ex.res.Stubs[name] = true
		fn = rep
		name = fn.String()
	} else if o := fn.Origin(); o != nil {
		if rep, ok := ex.prog.Replace[o.String()]; ok {
			ex.res.Stubs[o.String()] = true
			fn = rep
			name = fn.String()
		}
	}
	if fn.Synthetic == "package initializer" {
		path := pkgPathOf(fn)
		if !ex.prog.RunInit[path] || ex.initDone[fn.Pkg] {
			ex.finishNative(st, retSlot, Tuple{}, isDefer)
			return nil
		}
		ex.initDone[fn.Pkg] = true
	}
	if h := ex.intrinsic(fn, name); h != nil {
		cc := &callCtx{ex: ex, st: st, fn: fn, args: args, retSlot: retSlot, isDefer: isDefer}
		res, err := h(cc)
		if err != nil {
			return err
		}
		if res == blocked || cc.pushed {
			return nil
		}
		ex.finishNative(st, retSlot, res, isDefer)
		return nil
	}
	if len(fn.Blocks) == 0 || !ex.prog.allowBody(pkgPathOf(fn)) {
		if ex.lenient {
			cc := &callCtx{ex: ex, st: st, fn: fn, args: args}
			res, err := cc.zeroResult()
			if err != nil {
				return err
			}
			st.note("init: call of %s replaced by its zero result", name)
			ex.finishNative(st, retSlot, res, isDefer)
			return nil
		}
		return unsupported("call of %s (not executed and no model)", name)
	}
	if ex.cfg.Pure[name] && st.sink == nil && !isDefer {
		return ex.summarise(st, fn, args, bindings, retSlot)
	}
	fr, err := ex.pushFrame(st, fn, args, bindings, retSlot)
	if err != nil {
		return err
	}
	fr.isDefer = isDefer
	return nil
}

// summarise runs every path of a pure callee from the current state and
// continues the caller on ONE state whose result is the guarded merge of the
// callee's results. The callee must not have side effects the caller depends
// on other than its result (heap effects of the sub-paths are dropped, which
// is reported if any object the caller can see was written).
func (ex *Exec) summarise(st *State, fn *ssa.Function, args, bindings []Value, retSlot int) error {
	var local []*State
	sub := st.clone()
	sub.sink = &local
	npc := len(st.pc)
	fr, err := ex.pushFrame(sub, fn, args, bindings, -1)
	if err != nil {
		return err
	}
	depth := len(sub.task().frames)
	_ = depth
	fr.onReturn = func(s *State, res Value) error {
		s.sumDone = true
		s.sumRes = res
		return errPathEnd
	}
	local = append(local, sub)
	var guards []*smt.Term
	var vals []Value
	c := ex.ctx
	for len(local) > 0 {
		s := local[len(local)-1]
		local = local[:len(local)-1]
		s.w = st.w
		for !s.done && !s.sumDone {
			s.steps++
			ex.res.Steps++
			if s.steps > ex.cfg.MaxSteps {
				return unsupported("step limit inside summarised call of %s", fn)
			}
			err := ex.step(s)
			if err == nil {
				continue
			}
			if err == errDead {
				break
			}
			if err == errPathEnd {
				break
			}
			return err
		}
		if !s.sumDone {
			continue // path ended in a reported violation or died
		}
		g := c.True
		for _, t := range s.pc[npc:] {
			g = c.And(g, t)
		}
		guards = append(guards, g)
		vals = append(vals, s.sumRes)
		// side effects on objects that existed before the call are not merged
		for id, o := range s.heap {
			if old, ok := st.heap[id]; ok {
				if old != o {
					return unsupported("summarised function %s writes to caller-visible memory", fn)
				}
				continue
			}
			if _, inBase := ex.base[id]; inBase {
				return unsupported("summarised function %s writes to global memory", fn)
			}
			st.heap[id] = o // allocated by the callee; may be referenced by its result
		}
	}
	if len(vals) == 0 {
		return errDead
	}
	var res Value
	if vals[0] == nil {
		res = Tuple{}
	} else {
		m, ok := st.mergeMany(guards, vals)
		if !ok {
			return unsupported("cannot merge results of summarised function %s", fn)
		}
		res = m
	}
	ex.finishNative(st, retSlot, res, false)
	return nil
}

type callCtx struct {
	ex      *Exec
	st      *State
	fn      *ssa.Function
	args    []Value
	retSlot int
	isDefer bool
	pushed  bool
}

// callback pushes a frame for fn whose result is handed to k.
func (cc *callCtx) callback(f *Func, args []Value, k func(st *State, res Value) (Value, error)) error {
	if f.Fn == nil {
		return unsupported("callback to non-function")
	}
	retSlot, isDefer := cc.retSlot, cc.isDefer
	ex := cc.ex
	fr, err := ex.pushFrame(cc.st, f.Fn, args, f.Bindings, -1)
	if err != nil {
		return err
	}
	cc.pushed = true
	fr.onReturn = func(st *State, res Value) error {
		v, err := k(st, res)
		if err != nil {
			return err
		}
		ex.finishNative(st, retSlot, v, isDefer)
		return nil
	}
	return nil
}

// ---- builtins ----

func (ex *Exec) builtin(st *State, bi *ssa.Builtin, args []Value) (Value, error) {
	c := ex.ctx
	name := bi.Name()
	switch name {
	case "len":
		switch a := args[0].(type) {
		case *Slice:
			return a.Len, nil
		case *Str:
			if a.Opaque != 0 {
				return nil, unsupported("len of opaque string")
			}
			if a.Bytes != nil {
				return c.Const(64, uint64(len(a.Bytes))), nil
			}
			return c.Const(64, uint64(len(a.S))), nil
		case *Array:
			return c.Const(64, uint64(len(a.Elems))), nil
		case *Ptr:
			v, err := st.load(a)
			if err != nil {
				return nil, err
			}
			return c.Const(64, uint64(len(v.(*Array).Elems))), nil
		case *MapV:
			if a.Obj < 0 {
				return c.Const(64, 0), nil
			}
			return c.Const(64, uint64(len(st.obj(a.Obj).Val.(*MapObj).Entries))), nil
		case *ChanV:
			if a.Obj < 0 {
				return c.Const(64, 0), nil
			}
			return c.Const(64, uint64(len(st.obj(a.Obj).Val.(*ChanObj).Buf))), nil
		}
	case "cap":
		switch a := args[0].(type) {
		case *Slice:
			return a.Cap, nil
		case *Array:
			return c.Const(64, uint64(len(a.Elems))), nil
		case *ChanV:
			if a.Obj < 0 {
				return c.Const(64, 0), nil
			}
			return c.Const(64, uint64(st.obj(a.Obj).Val.(*ChanObj).Cap)), nil
		}
	case "append":
		return ex.doAppend(st, args[0].(*Slice), args[1])
	case "copy":
		return ex.doCopy(st, args[0].(*Slice), args[1])
	case "min", "max":
		sig, _ := bi.Type().(*types.Signature)
		if sig == nil || sig.Params().Len() == 0 {
			return nil, unsupported("builtin %s without type info", name)
		}
		_, signed, ok := intWidth(sig.Params().At(0).Type())
		if !ok {
			return nil, unsupported("builtin %s on non-integers", name)
		}
		acc := args[0].(*smt.Term)
		for _, a := range args[1:] {
			t := a.(*smt.Term)
			op := smt.OpUlt
			if signed {
				op = smt.OpSlt
			}
			lt := c.Cmp(op, t, acc)
			if name == "max" {
				lt = c.Cmp(op, acc, t)
			}
			acc = c.Ite(lt, t, acc)
		}
		return acc, nil
	case "print", "println":
		return Tuple{}, nil
	case "recover":
		return &Iface{Alts: []IfaceAlt{{G: c.True}}}, nil
	case "ssa:wrapnilchk":
		return args[0], nil
	case "ssa:deferstack":
		return &Opaque{}, nil
	case "close":
		return ex.chanClose(st, args[0].(*ChanV))
	case "delete":
		return ex.mapDelete(st, args[0].(*MapV), args[1])
	case "clear":
		switch a := args[0].(type) {
		case *MapV:
			if a.Obj >= 0 {
				m := st.obj(a.Obj).Val.(*MapObj)
				st.setObj(a.Obj, &MapObj{K: m.K, V: m.V})
			}
			return Tuple{}, nil
		case *Slice:
			n, err := ex.concretize(st, a.Len, "clear length")
			if err != nil {
				return nil, err
			}
			et := ex.sliceElemType(st, a, nil)
			if n > 0 && et == nil {
				return nil, unsupported("clear: unknown element type")
			}
			for i := uint64(0); i < n; i++ {
				if err := st.store(ex.elemPtr(a, c.Const(64, i)), st.zero(et)); err != nil {
					return nil, err
				}
			}
			return Tuple{}, nil
		}
	}
	return nil, unsupported("builtin %s(%T)", name, args[0])
}

// growCap mirrors runtime.growslice for the new capacity.
func growCap(oldCap, needed int, elemSize int) int {
	newcap := oldCap
	doublecap := newcap + newcap
	if needed > doublecap {
		newcap = needed
	} else {
		const threshold = 256
		if oldCap < threshold {
			newcap = doublecap
		} else {
			for newcap < needed {
				newcap += (newcap + 3*threshold) >> 2
			}
		}
	}
	mem := roundupsize(newcap * elemSize)
	if elemSize == 0 {
		return newcap
	}
	return mem / elemSize
}

var sizeClasses = []int{0, 8, 16, 24, 32, 48, 64, 80, 96, 112, 128, 144, 160, 176, 192, 208, 224, 240, 256, 288, 320, 352, 384, 416, 448, 480, 512, 576, 640, 704, 768, 896, 1024, 1152, 1280, 1408, 1536, 1792, 2048, 2304, 2688, 3072, 3200, 3456, 4096, 4864, 5120, 5376, 6144, 6528, 6784, 6912, 8192, 9472, 9728, 10240, 10880, 12288, 13568, 14336, 16384, 18432, 19072, 20480, 21760, 24576, 27264, 28672, 32768}

func roundupsize(n int) int {
	if n <= 32768 {
		for _, s := range sizeClasses {
			if s >= n {
				return s
			}
		}
	}
	const page = 8192
	return (n + page - 1) / page * page
}

func (ex *Exec) elemSize(t types.Type) int {
	return int(ex.prog.Sizes.Sizeof(t))
}

func (ex *Exec) doAppend(st *State, s *Slice, more Value) (Value, error) {
	c := ex.ctx
	var add []Value
	var et types.Type
	switch m := more.(type) {
	case *Str:
		if m.Opaque != 0 {
			return nil, unsupported("append of opaque string")
		}
		for _, b := range st.strBytes(m) {
			add = append(add, b)
		}
		et = types.Typ[types.Uint8]
	case *Slice:
		if ex.isAbstract(st, m) || ex.isAbstract(st, s) {
			return nil, unsupported("append involving an abstract array")
		}
		n, err := ex.concretize(st, m.Len, "append source length")
		if err != nil {
			return nil, err
		}
		// concretise the destination before reading so forks re-execute cleanly
		if _, err := ex.concretize(st, s.Len, "append dest length"); err != nil {
			return nil, err
		}
		if _, err := ex.concretize(st, s.Cap, "append dest cap"); err != nil {
			return nil, err
		}
		for i := uint64(0); i < n; i++ {
			v, err := ex.sliceElem(st, m, c.Const(64, i))
			if err != nil {
				return nil, err
			}
			add = append(add, v)
		}
	default:
		return nil, unsupported("append of %T", more)
	}
	ln, err := ex.concretize(st, s.Len, "append dest length")
	if err != nil {
		return nil, err
	}
	cp, err := ex.concretize(st, s.Cap, "append dest cap")
	if err != nil {
		return nil, err
	}
	if len(add) == 0 {
		return s, nil
	}
	if int(ln)+len(add) <= int(cp) {
		// in place
		for i, v := range add {
			p := ex.elemPtr(s, c.Const(64, ln+uint64(i)))
			if err := st.store(p, v); err != nil {
				return nil, err
			}
		}
		return &Slice{Base: s.Base, Off: s.Off, Len: c.Const(64, ln+uint64(len(add))), Cap: s.Cap}, nil
	}
	// element type from the existing backing array or the appended values
	if et == nil {
		et = ex.sliceElemType(st, s, more)
	}
	if et == nil {
		return nil, unsupported("append: cannot determine element type")
	}
	needed := int(ln) + len(add)
	ncap := growCap(int(cp), needed, ex.elemSize(et))
	arr := &Array{Elem: et, Elems: make([]Value, ncap)}
	for i := uint64(0); i < ln; i++ {
		v, err := ex.sliceElem(st, s, c.Const(64, i))
		if err != nil {
			return nil, err
		}
		arr.Elems[i] = v
	}
	for i, v := range add {
		arr.Elems[int(ln)+i] = v
	}
	p := st.newPtr(arr, types.NewArray(et, int64(ncap)), "append")
	return &Slice{Base: p, Off: c.Const(64, 0), Len: c.Const(64, uint64(needed)), Cap: c.Const(64, uint64(ncap))}, nil
}

func (ex *Exec) sliceElemType(st *State, s *Slice, more Value) types.Type {
	for _, x := range []Value{s, more} {
		sl, ok := x.(*Slice)
		if !ok {
			continue
		}
		for _, al := range sl.Base.Alts {
			if al.L == nil {
				continue
			}
			v, err := st.loadLoc(al.L)
			if err == nil {
				if a, ok := v.(*Array); ok {
					return a.Elem
				}
			}
		}
	}
	return nil
}

func (ex *Exec) doCopy(st *State, dst *Slice, src Value) (Value, error) {
	c := ex.ctx
	var vals []Value
	dn, err := ex.concretize(st, dst.Len, "copy dest length")
	if err != nil {
		return nil, err
	}
	switch m := src.(type) {
	case *Str:
		if m.Opaque != 0 {
			return nil, unsupported("copy of opaque string")
		}
		for _, b := range st.strBytes(m) {
			vals = append(vals, b)
		}
	case *Slice:
		if ex.isAbstract(st, m) || ex.isAbstract(st, dst) {
			return nil, unsupported("copy involving an abstract array")
		}
		n, err := ex.concretize(st, m.Len, "copy source length")
		if err != nil {
			return nil, err
		}
		if n > dn {
			n = dn
		}
		for i := uint64(0); i < n; i++ {
			v, err := ex.sliceElem(st, m, c.Const(64, i))
			if err != nil {
				return nil, err
			}
			vals = append(vals, v)
		}
	}
	if uint64(len(vals)) > dn {
		vals = vals[:dn]
	}
	for i, v := range vals {
		if err := st.store(ex.elemPtr(dst, c.Const(64, uint64(i))), v); err != nil {
			return nil, err
		}
	}
	return c.Const(64, uint64(len(vals))), nil
}

// ---- maps ----

func (ex *Exec) keyEq(st *State, a, b Value) (*smt.Term, error) {
	return ex.valueEq(st, a, b, "map key")
}

// mapFind locates the entry for key, forking over symbolic key equalities.
// Returns the entry index or -1.
func (ex *Exec) mapFind(st *State, m *MapObj, key Value, site interface{}) (int, error) {
	for i, e := range m.Entries {
		eq, err := ex.keyEq(st, e.K, key)
		if err != nil {
			return 0, err
		}
		if eq.IsTrue() {
			return i, nil
		}
		if eq.IsFalse() {
			continue
		}
		alt, err := ex.pickAlt(st, nil, []*smt.Term{eq, ex.ctx.Not(eq)})
		if err != nil {
			return 0, err
		}
		if alt == 0 {
			return i, nil
		}
	}
	return -1, nil
}

func (ex *Exec) lookup(st *State, fr *Frame, x *ssa.Lookup) (Value, error) {
	c := ex.ctx
	a, err := ex.get(st, fr, x.X)
	if err != nil {
		return nil, err
	}
	k, err := ex.get(st, fr, x.Index)
	if err != nil {
		return nil, err
	}
	switch av := a.(type) {
	case *Str:
		return ex.strIndex(st, av, ex.toIndex(k, x.Index.Type()), ex.pos(x))
	case *MapV:
		mt := under(x.X.Type()).(*types.Map)
		var val Value
		found := false
		if av.Obj >= 0 {
			m := st.obj(av.Obj).Val.(*MapObj)
			i, err := ex.mapFind(st, m, k, x)
			if err != nil {
				return nil, err
			}
			if i >= 0 {
				val, found = m.Entries[i].V, true
			}
		}
		if !found {
			val = st.zero(mt.Elem())
		}
		if x.CommaOk {
			return Tuple{val, c.Bool(found)}, nil
		}
		return val, nil
	}
	return nil, unsupported("Lookup on %T", a)
}

func (ex *Exec) doMapUpdate(st *State, fr *Frame, x *ssa.MapUpdate) error {
	a, err := ex.get(st, fr, x.Map)
	if err != nil {
		return err
	}
	k, err := ex.get(st, fr, x.Key)
	if err != nil {
		return err
	}
	v, err := ex.get(st, fr, x.Value)
	if err != nil {
		return err
	}
	mv := a.(*MapV)
	if mv.Obj < 0 {
		_, tape := ex.model(st)
		ex.violation(st, "trap", "assignment to entry in nil map", ex.pos(x), "", tape)
		return errPathEnd
	}
	m := st.obj(mv.Obj).Val.(*MapObj)
	i, err := ex.mapFind(st, m, k, x)
	if err != nil {
		return err
	}
	nm := &MapObj{K: m.K, V: m.V, Entries: append([]MapEntry(nil), m.Entries...)}
	if i >= 0 {
		nm.Entries[i] = MapEntry{K: nm.Entries[i].K, V: v}
	} else {
		nm.Entries = append(nm.Entries, MapEntry{K: k, V: v})
	}
	st.setObj(mv.Obj, nm)
	fr.pc++
	return nil
}

func (ex *Exec) mapDelete(st *State, mv *MapV, k Value) (Value, error) {
	if mv.Obj < 0 {
		return Tuple{}, nil
	}
	m := st.obj(mv.Obj).Val.(*MapObj)
	i, err := ex.mapFind(st, m, k, "delete")
	if err != nil {
		return nil, err
	}
	if i >= 0 {
		nm := &MapObj{K: m.K, V: m.V}
		nm.Entries = append(nm.Entries, m.Entries[:i]...)
		nm.Entries = append(nm.Entries, m.Entries[i+1:]...)
		st.setObj(mv.Obj, nm)
	}
	return Tuple{}, nil
}

// iterator state of a range over a map or string
type rangeIter struct {
	entries []MapEntry
	str     []*smt.Term
	pos     int
	isStr   bool
}

func (ex *Exec) doRange(st *State, fr *Frame, x *ssa.Range) (Value, error) {
	a, err := ex.get(st, fr, x.X)
	if err != nil {
		return nil, err
	}
	switch av := a.(type) {
	case *MapV:
		it := &rangeIter{}
		if av.Obj >= 0 {
			// Iteration order: insertion order. Go's order is unspecified; the
			// order-dependence of a result is outside what this engine explores.
			it.entries = append(it.entries, st.obj(av.Obj).Val.(*MapObj).Entries...)
		}
		id := st.newObj(it, nil, "mapiter")
		return &Opaque{ID: id}, nil
	case *Str:
		if av.Opaque != 0 {
			return nil, unsupported("range over opaque string")
		}
		it := &rangeIter{isStr: true, str: st.strBytes(av)}
		id := st.newObj(it, nil, "striter")
		return &Opaque{ID: id}, nil
	}
	return nil, unsupported("range over %T", a)
}

func (ex *Exec) doNext(st *State, fr *Frame, x *ssa.Next) (Value, error) {
	c := ex.ctx
	a, err := ex.get(st, fr, x.Iter)
	if err != nil {
		return nil, err
	}
	id := a.(*Opaque).ID
	it := st.obj(id).Val.(*rangeIter)
	tt := x.Type().(*types.Tuple)
	if it.isStr {
		if it.pos >= len(it.str) {
			return Tuple{c.False, c.Const(64, 0), c.Const(32, 0)}, nil
		}
		b := it.str[it.pos]
		if !b.IsConst() || b.Val >= 0x80 {
			return nil, unsupported("range over non-ASCII or symbolic string")
		}
		nit := *it
		nit.pos++
		st.heap[id] = &Object{Val: &nit, Tag: "striter"}
		return Tuple{c.True, c.Const(64, uint64(it.pos)), c.Const(32, b.Val)}, nil
	}
	if it.pos >= len(it.entries) {
		return Tuple{c.False, st.zeroOrInvalid(tt.At(1).Type()), st.zeroOrInvalid(tt.At(2).Type())}, nil
	}
	e := it.entries[it.pos]
	nit := *it
	nit.pos++
	st.heap[id] = &Object{Val: &nit, Tag: "mapiter"}
	return Tuple{c.True, e.K, e.V}, nil
}

func (st *State) zeroOrInvalid(t types.Type) Value {
	if b, ok := t.(*types.Basic); ok && b.Kind() == types.Invalid {
		return &Opaque{}
	}
	return st.zero(t)
}

// fullName helpers for intrinsic dispatch
func pkgPathOf(fn *ssa.Function) string {
	if p := fn.Package(); p != nil {
		return p.Pkg.Path()
	}
	if o := fn.Origin(); o != nil {
		return pkgPathOf(o)
	}
	if fn.Object() != nil && fn.Object().Pkg() != nil {
		return fn.Object().Pkg().Path()
	}
	return ""
}

func hasPrefixAny(s string, ps ...string) bool {
	for _, p := range ps {
		if strings.HasPrefix(s, p) {
			return true
		}
	}
	return false
}
