package sym

import (
	"fmt"
	"go/types"
	"strconv"
	"strings"

	"golang.org/x/tools/go/ssa"

	"verif/engine/smt"
)

type handler func(cc *callCtx) (Value, error)

const hp = repoPkgPath + "."

func (ex *Exec) intrinsic(fn *ssa.Function, name string) handler {
	if h, ok := intrinsics[name]; ok {
		return h
	}
	switch {
	case strings.HasPrefix(name, "(*sync/atomic.Pointer["):
		switch fn.Name() {
		case "Load":
			return atomicPtrLoad
		case "Store":
			return atomicPtrStore
		}
	case strings.HasPrefix(name, "(*log.Logger)."), strings.HasPrefix(name, "log."):
		return func(cc *callCtx) (Value, error) { return cc.zeroResult() }
	case strings.HasPrefix(name, "fmt.Fprint"), strings.HasPrefix(name, "fmt.Print"):
		return func(cc *callCtx) (Value, error) { return cc.zeroResult() }
	}
	return nil
}

func (cc *callCtx) zeroResult() (Value, error) {
	res := cc.fn.Signature.Results()
	switch res.Len() {
	case 0:
		return Tuple{}, nil
	case 1:
		return cc.st.zero(res.At(0).Type()), nil
	}
	return cc.st.zero(res), nil
}

func (cc *callCtx) c() *smt.Ctx { return cc.ex.ctx }

func (cc *callCtx) term(i int) *smt.Term { return cc.args[i].(*smt.Term) }

func (cc *callCtx) str(i int) string {
	s, _ := cc.args[i].(*Str)
	if s == nil {
		return "?"
	}
	return s.S
}

func (cc *callCtx) pos() string { return cc.ex.where(cc.st) }

var intrinsics map[string]handler

func init() {
	intrinsics = map[string]handler{
		// ---- harness primitives ----
		hp + "vU8":      func(cc *callCtx) (Value, error) { return cc.fresh("u8", 8), nil },
		hp + "vU16":     func(cc *callCtx) (Value, error) { return cc.fresh("u16", 16), nil },
		hp + "vU32":     func(cc *callCtx) (Value, error) { return cc.fresh("u32", 32), nil },
		hp + "vU64":     func(cc *callCtx) (Value, error) { return cc.fresh("u64", 64), nil },
		hp + "vInt":     func(cc *callCtx) (Value, error) { return cc.fresh("int", 64), nil },
		hp + "vBool":    func(cc *callCtx) (Value, error) { return cc.fresh("bool", 0), nil },
		hp + "vBytes":   vBytes,
		hp + "vRange":   vRange,
		hp + "vAssume":  vAssume,
		hp + "vAssert":  vAssert,
		hp + "vCover":   vCover,
		hp + "vKnown":   vKnown,
		hp + "vTier":    func(cc *callCtx) (Value, error) { return cc.c().Const(64, uint64(cc.ex.cfg.Tier)), nil },
		hp + "vIte64": func(cc *callCtx) (Value, error) { return cc.c().Ite(cc.term(0), cc.term(1), cc.term(2)), nil },
		hp + "vAnd":   func(cc *callCtx) (Value, error) { return cc.c().And(cc.term(0), cc.term(1)), nil },
		hp + "vOr":    func(cc *callCtx) (Value, error) { return cc.c().Or(cc.term(0), cc.term(1)), nil },
		hp + "vSplit": func(cc *callCtx) (Value, error) {
			v, err := cc.ex.concretize(cc.st, cc.term(0), "vSplit")
			if err != nil {
				return nil, err
			}
			return cc.c().Const(cc.term(0).W, v), nil
		},
		hp + "vEnv32":    func(cc *callCtx) (Value, error) { return cc.c().Var("env", 32), nil },
		hp + "vSymbolic": func(cc *callCtx) (Value, error) { return cc.c().True, nil },
		hp + "vUnsupported": func(cc *callCtx) (Value, error) {
			return nil, unsupported("harness: %s", cc.str(0))
		},
		hp + "vQuiesce":   vQuiesce,
		hp + "vLiveTasks": vLiveTasks,
		hp + "vGhostOf":   vGhostOf,
		hp + "vNote":      func(cc *callCtx) (Value, error) { cc.st.trace = append(cc.st.trace, cc.str(0)); return Tuple{}, nil },
		hp + "vAbstractBytes": vAbstractBytes,
		hp + "vPoolMark":  func(cc *callCtx) (Value, error) { return Tuple{}, nil },
		hp + "vInPool":    vInPool,
		hp + "vPoolNotes": vPoolNotes,

		// ---- bytes ----
		"bytes.Equal":     bytesEqual,
		"bytes.EqualFold": bytesEqualFold,

		// ---- fmt / strconv / debug ----
		"fmt.Sprintf":         opaqueString,
		"fmt.Sprint":          opaqueString,
		"fmt.Sprintln":        opaqueString,
		"fmt.Errorf":          fmtErrorf,
		"strconv.Itoa":        strconvItoa,
		"runtime/debug.Stack": func(cc *callCtx) (Value, error) { return cc.zeroResult() },

		// ---- sync ----
		"(*sync.Pool).Get":        poolGet,
		"(*sync.Pool).Put":        poolPut,
		"(*sync.Mutex).Lock":      mutexLock,
		"(*sync.Mutex).Unlock":    mutexUnlock,
		"(*sync.Mutex).TryLock":   nil,
		"(*sync.RWMutex).Lock":    mutexLock,
		"(*sync.RWMutex).Unlock":  mutexUnlock,
		"(*sync.RWMutex).RLock":   mutexLock,
		"(*sync.RWMutex).RUnlock": mutexUnlock,

		// ---- sync/atomic ----
		"sync/atomic.LoadInt32":  atomicLoad,
		"sync/atomic.LoadInt64":  atomicLoad,
		"sync/atomic.LoadUint32": atomicLoad,
		"sync/atomic.LoadUint64": atomicLoad,
		"sync/atomic.StoreInt32":  atomicStore,
		"sync/atomic.StoreInt64":  atomicStore,
		"sync/atomic.StoreUint32": atomicStore,
		"sync/atomic.StoreUint64": atomicStore,
		"sync/atomic.AddInt32":  atomicAdd,
		"sync/atomic.AddInt64":  atomicAdd,
		"sync/atomic.AddUint32": atomicAdd,
		"sync/atomic.AddUint64": atomicAdd,
		"sync/atomic.CompareAndSwapInt32":  atomicCAS,
		"sync/atomic.CompareAndSwapInt64":  atomicCAS,
		"sync/atomic.CompareAndSwapUint32": atomicCAS,
		"sync/atomic.CompareAndSwapUint64": atomicCAS,

		// ---- time: clocks are opaque, timers never fire ----
		"time.Now":   func(cc *callCtx) (Value, error) { return cc.zeroResult() },
		"time.Unix":  func(cc *callCtx) (Value, error) { return cc.zeroResult() },
		"time.Since": func(cc *callCtx) (Value, error) { return cc.c().Var("since", 64), nil },
		"time.Until": func(cc *callCtx) (Value, error) { return cc.c().Var("until", 64), nil },
		"(time.Time).Add":      func(cc *callCtx) (Value, error) { return cc.args[0], nil },
		"(time.Time).After":    func(cc *callCtx) (Value, error) { return cc.c().Var("after", 0), nil },
		"(time.Time).Before":   func(cc *callCtx) (Value, error) { return cc.c().Var("before", 0), nil },
		"(time.Time).IsZero":   func(cc *callCtx) (Value, error) { return cc.c().Var("iszero", 0), nil },
		"(time.Time).UnixNano": func(cc *callCtx) (Value, error) { return cc.c().Var("unixnano", 64), nil },
		"(time.Time).Sub":      func(cc *callCtx) (Value, error) { return cc.c().Var("sub", 64), nil },
		"(time.Duration).Seconds": func(cc *callCtx) (Value, error) { return &Opaque{T: types.Typ[types.Float64]}, nil },
		"time.NewTimer":  newTimer,
		"time.AfterFunc": newTimer,
		"time.NewTicker": newTimer,
		"time.After": func(cc *callCtx) (Value, error) {
			id := cc.st.newObj(&ChanObj{Elem: cc.fn.Signature.Results().At(0).Type(), Cap: 1, Never: true}, nil, "time.After")
			return &ChanV{Obj: id}, nil
		},
		"(*time.Timer).Reset":  func(cc *callCtx) (Value, error) { return cc.c().True, nil },
		"(*time.Timer).Stop":   func(cc *callCtx) (Value, error) { return cc.c().True, nil },
		"(*time.Ticker).Stop":  func(cc *callCtx) (Value, error) { return Tuple{}, nil },
		"(*time.Ticker).Reset": func(cc *callCtx) (Value, error) { return Tuple{}, nil },

		// ---- randomness ----
		"github.com/valyala/fastrand.Uint32n": func(cc *callCtx) (Value, error) {
			c := cc.c()
			v := c.Var("fastrand", 32)
			cc.st.assume(c.Cmp(smt.OpUlt, v, cc.term(0)))
			return v, nil
		},
		"crypto/rand.Read": cryptoRandRead,
	}
	delete(intrinsics, "(*sync.Mutex).TryLock")
}

func (cc *callCtx) fresh(kind string, w int) *smt.Term {
	v := cc.c().Var(kind, w)
	cc.st.tape = append(cc.st.tape, TapeEntry{Kind: kind, T: v})
	return v
}

func (cc *callCtx) intArg(i int, what string) (uint64, error) {
	return cc.ex.concretize(cc.st, cc.term(i), what)
}

func vBytes(cc *callCtx) (Value, error) {
	n, err := cc.intArg(0, "vBytes length")
	if err != nil {
		return nil, err
	}
	c := cc.c()
	arr := &Array{Elem: types.Typ[types.Uint8], Elems: make([]Value, n)}
	for i := range arr.Elems {
		arr.Elems[i] = cc.fresh("u8", 8)
	}
	p := cc.st.newPtr(arr, types.NewArray(types.Typ[types.Uint8], int64(n)), "vBytes")
	ln := c.Const(64, n)
	return &Slice{Base: p, Off: c.Const(64, 0), Len: ln, Cap: ln}, nil
}

// vRange(lo, hi) forks over every integer in [lo, hi].
func vRange(cc *callCtx) (Value, error) {
	lo, err := cc.intArg(0, "vRange lo")
	if err != nil {
		return nil, err
	}
	hi, err := cc.intArg(1, "vRange hi")
	if err != nil {
		return nil, err
	}
	if int64(hi) < int64(lo) {
		return nil, errDead
	}
	n := int(int64(hi)-int64(lo)) + 1
	if n > 4096 {
		return nil, unsupported("vRange over %d values", n)
	}
	st := cc.st
	k := fmt.Sprintf("range#%d", st.nchoice)
	i, ok := 0, false
	if st.alt != nil {
		i, ok = st.alt[k]
	}
	if !ok {
		for j := 1; j < n; j++ {
			o := st.clone()
			o.setAlt(k, j)
			cc.ex.push(o)
			cc.ex.res.Forks++
		}
		st.setAlt(k, 0)
		i = 0
	}
	st.nchoice++
	v := cc.c().Const(64, lo+uint64(i))
	st.tape = append(st.tape, TapeEntry{Kind: "range", T: v})
	return v, nil
}

func vAssume(cc *callCtx) (Value, error) {
	cond := cc.term(0)
	cc.ex.res.Assumes++
	if cond.IsTrue() {
		return Tuple{}, nil
	}
	if cc.ex.sat(cc.st, cond) == smt.Unsat {
		return nil, errDead
	}
	cc.st.assume(cond)
	return Tuple{}, nil
}

func vAssert(cc *callCtx) (Value, error) {
	ok, err := cc.ex.check(cc.st, cc.term(0), "assert", cc.str(1), cc.callerPos())
	if err != nil {
		return nil, err
	}
	if !ok {
		return nil, errPathEnd
	}
	return Tuple{}, nil
}

func (cc *callCtx) callerPos() string {
	fr := cc.st.frame()
	if fr.pc < len(fr.block.Instrs) {
		return cc.ex.pos(fr.block.Instrs[fr.pc])
	}
	return "?"
}

func vCover(cc *callCtx) (Value, error) {
	id := cc.str(0)
	cond := cc.term(1)
	res := cc.ex.res
	res.CoverIDs[id] = true
	if _, have := res.Covers[id]; have || cond.IsFalse() {
		return Tuple{}, nil
	}
	r, tape := cc.ex.model(cc.st, cond)
	if r == smt.Sat {
		res.Covers[id] = &CoverWitness{ID: id, Tape: tape}
	}
	return Tuple{}, nil
}

func vKnown(cc *callCtx) (Value, error) {
	id := cc.str(0)
	region := cc.term(1)
	if !cc.ex.cfg.Known[id] {
		return Tuple{}, nil
	}
	c := cc.c()
	if cc.ex.sat(cc.st, region) != smt.Unsat {
		cc.ex.res.KnownSeen[id]++
	}
	nr := c.Not(region)
	if cc.ex.sat(cc.st, nr) == smt.Unsat {
		return nil, errDead
	}
	cc.st.assume(nr)
	return Tuple{}, nil
}

func vQuiesce(cc *callCtx) (Value, error) {
	st := cc.st
	if len(st.tasks) == 1 {
		return Tuple{}, nil
	}
	st.tasks[0].yielding = true
	if err := cc.ex.schedule(st); err != nil {
		return nil, err
	}
	return blocked, nil
}

func vLiveTasks(cc *callCtx) (Value, error) {
	return cc.c().Const(64, uint64(len(cc.st.liveTasks()))), nil
}

// vGhostOf(p any) *vGhostT returns the ghost record attached to the object p
// points to, creating it on first use.
func vGhostOf(cc *callCtx) (Value, error) {
	iv := cc.args[0].(*Iface)
	if len(iv.Alts) != 1 || iv.Alts[0].T == nil {
		return nil, unsupported("vGhostOf of a merged or nil interface")
	}
	p, ok := iv.Alts[0].V.(*Ptr)
	if !ok || p.soleLoc() == nil {
		return nil, unsupported("vGhostOf of a non-pointer or multi-target pointer")
	}
	key := p.soleLoc().key()
	st := cc.st
	if id, ok := st.ghosts[key]; ok {
		return single(&Loc{Obj: id}, cc.c()), nil
	}
	gt := deref(cc.fn.Signature.Results().At(0).Type())
	id := st.newObj(st.zero(gt), gt, "ghost "+key)
	st.ghosts[key] = id
	return single(&Loc{Obj: id}, cc.c()), nil
}

func vAbstractBytes(cc *callCtx) (Value, error) {
	c := cc.c()
	n := cc.term(0)
	et := types.Typ[types.Uint8]
	arr := &Array{Elem: et, Abs: c.ArrVar("abs"), Size: n}
	p := cc.st.newPtr(arr, types.NewArray(et, 0), "abstract")
	return &Slice{Base: p, Off: c.Const(64, 0), Len: n, Cap: n}, nil
}

func objOfIface(v Value) (int, bool) {
	iv, ok := v.(*Iface)
	if !ok || len(iv.Alts) != 1 {
		return 0, false
	}
	p, ok := iv.Alts[0].V.(*Ptr)
	if !ok || p.soleLoc() == nil {
		return 0, false
	}
	return p.soleLoc().Obj, true
}

func vInPool(cc *callCtx) (Value, error) {
	id, ok := objOfIface(cc.args[0])
	if !ok {
		return cc.c().False, nil
	}
	return cc.c().Bool(cc.st.inPool[id]), nil
}

func vPoolNotes(cc *callCtx) (Value, error) {
	n := 0
	for _, s := range cc.st.notes {
		if strings.HasPrefix(s, "double-release") || strings.HasPrefix(s, "use-after-release") {
			n++
		}
	}
	return cc.c().Const(64, uint64(n)), nil
}

// ---- bytes ----

func bytesEqual(cc *callCtx) (Value, error) {
	a, b := cc.args[0].(*Slice), cc.args[1].(*Slice)
	return cc.ex.bytesEq(cc.st, a, b, func(x, y *smt.Term) *smt.Term { return cc.c().Eq(x, y) })
}

func (ex *Exec) bytesEq(st *State, a, b *Slice, eq func(x, y *smt.Term) *smt.Term) (Value, error) {
	c := ex.ctx
	if a.Len.IsConst() && b.Len.IsConst() && a.Len.Val != b.Len.Val {
		return c.False, nil
	}
	// one concrete length decides the loop bound; otherwise concretise a
	var n uint64
	var err error
	switch {
	case a.Len.IsConst():
		n = a.Len.Val
	case b.Len.IsConst():
		n = b.Len.Val
	default:
		n, err = ex.concretize(st, a.Len, "bytes.Equal length")
		if err != nil {
			return nil, err
		}
		a = &Slice{Base: a.Base, Off: a.Off, Len: c.Const(64, n), Cap: a.Cap}
	}
	r := c.And(c.Eq(a.Len, c.Const(64, n)), c.Eq(b.Len, c.Const(64, n)))
	if r.IsFalse() {
		return r, nil
	}
	for i := uint64(0); i < n; i++ {
		x, err := ex.sliceElem(st, a, c.Const(64, i))
		if err != nil {
			return nil, err
		}
		y, err := ex.sliceElem(st, b, c.Const(64, i))
		if err != nil {
			return nil, err
		}
		r = c.And(r, eq(x.(*smt.Term), y.(*smt.Term)))
		if r.IsFalse() {
			break
		}
	}
	return r, nil
}

// bytesEqualFold models ASCII case folding only; non-ASCII bytes compare by
// identity (bytes.EqualFold would apply Unicode folding to them).
func bytesEqualFold(cc *callCtx) (Value, error) {
	c := cc.c()
	lower := func(x *smt.Term) *smt.Term {
		isUp := c.And(c.Cmp(smt.OpUle, c.Const(8, 'A'), x), c.Cmp(smt.OpUle, x, c.Const(8, 'Z')))
		return c.Ite(isUp, c.Bin(smt.OpBOr, x, c.Const(8, 0x20)), x)
	}
	a, b := cc.args[0].(*Slice), cc.args[1].(*Slice)
	return cc.ex.bytesEq(cc.st, a, b, func(x, y *smt.Term) *smt.Term { return c.Eq(lower(x), lower(y)) })
}

// ---- fmt ----

// Formatted strings only ever feed logs and debug data in this package; they
// are modelled as a fixed placeholder.
func opaqueString(cc *callCtx) (Value, error) {
	return &Str{S: "<formatted>"}, nil
}

func (ex *Exec) newErrorString(st *State, s *Str) Value {
	et := ex.prog.ErrorStr
	obj := &Struct{T: under(et).(*types.Struct), Fields: []Value{s}}
	p := st.newPtr(obj, et, "error")
	return &Iface{Alts: []IfaceAlt{{G: ex.ctx.True, T: types.NewPointer(et), V: p}}}
}

func fmtErrorf(cc *callCtx) (Value, error) {
	return cc.ex.newErrorString(cc.st, &Str{S: "<formatted>"}), nil
}

func strconvItoa(cc *callCtx) (Value, error) {
	t := cc.term(0)
	if t.IsConst() {
		return &Str{S: strconv.FormatInt(t.SVal(), 10)}, nil
	}
	return opaqueString(cc)
}

// ---- sync.Pool ----

func (cc *callCtx) recvKey() (string, *Ptr, error) {
	p, ok := cc.args[0].(*Ptr)
	if !ok {
		return "", nil, unsupported("receiver is %T", cc.args[0])
	}
	if len(p.Alts) != 1 {
		guards := make([]*smt.Term, len(p.Alts))
		for i, al := range p.Alts {
			guards[i] = al.G
		}
		i, err := cc.ex.pickAlt(cc.st, p, guards)
		if err != nil {
			return "", nil, err
		}
		p = &Ptr{Alts: []PtrAlt{{G: cc.c().True, L: p.Alts[i].L}}}
	}
	if p.Alts[0].L == nil {
		_, tape := cc.ex.model(cc.st)
		cc.ex.violation(cc.st, "trap", "nil dereference", cc.pos(), "method on nil "+cc.fn.Name(), tape)
		return "", nil, errPathEnd
	}
	return p.Alts[0].L.key(), p, nil
}

func poolGet(cc *callCtx) (Value, error) {
	key, p, err := cc.recvKey()
	if err != nil {
		return nil, err
	}
	st := cc.st
	items := st.pools[key]
	if len(items) > 0 {
		v := items[len(items)-1]
		st.pools[key] = append([]Value(nil), items[:len(items)-1]...)
		if id, ok := objOfIface(v); ok {
			delete(st.inPool, id)
		}
		return v, nil
	}
	pv, err := st.load(p)
	if err != nil {
		return nil, err
	}
	ps := pv.(*Struct)
	for i := 0; i < ps.T.NumFields(); i++ {
		if ps.T.Field(i).Name() == "New" {
			f := st.field(ps, i).(*Func)
			if f.Fn == nil {
				return &Iface{Alts: []IfaceAlt{{G: cc.c().True}}}, nil
			}
			return nil, cc.callback(f, nil, func(st *State, res Value) (Value, error) { return res, nil })
		}
	}
	return nil, fmt.Errorf("internal: sync.Pool without New field")
}

func poolPut(cc *callCtx) (Value, error) {
	key, _, err := cc.recvKey()
	if err != nil {
		return nil, err
	}
	st := cc.st
	v := cc.args[1]
	if id, ok := objOfIface(v); ok {
		if st.inPool[id] {
			st.note("double-release: object %d (%s) put into a pool twice at %s", id, st.obj(id).Tag, cc.pos())
		}
		st.inPool[id] = true
	}
	st.pools[key] = append(append([]Value(nil), st.pools[key]...), v)
	return Tuple{}, nil
}

// ---- mutex ----

func mutexLock(cc *callCtx) (Value, error) {
	key, _, err := cc.recvKey()
	if err != nil {
		return nil, err
	}
	st := cc.st
	t := st.task()
	owner := st.locks[key]
	if owner == 0 {
		st.locks[key] = t.id + 1
		t.waitLock = ""
		return Tuple{}, nil
	}
	if owner == t.id+1 && t.waitLock != key {
		// sync.Mutex has no owner: the goroutine waits, for good unless some
		// other goroutine unlocks. The task blocks like any other waiter, and
		// the harness observes what does not happen any more.
		st.note("self-deadlock: task %d locks %s again at %s", t.id, key, cc.pos())
	}
	t.waitLock = key
	if err := cc.ex.block(st); err != nil {
		return nil, err
	}
	return blocked, nil
}

func mutexUnlock(cc *callCtx) (Value, error) {
	key, _, err := cc.recvKey()
	if err != nil {
		return nil, err
	}
	st := cc.st
	if st.locks[key] == 0 {
		_, tape := cc.ex.model(st)
		cc.ex.violation(st, "trap", "unlock of unlocked mutex", cc.pos(), key, tape)
		return nil, errPathEnd
	}
	delete(st.locks, key)
	return Tuple{}, nil
}

// ---- atomics (sequentially consistent plain accesses) ----

func (cc *callCtx) ptrArg(i int) (*Ptr, error) {
	p := cc.args[i].(*Ptr)
	ok, err := cc.ex.nilCheck(cc.st, p, cc.pos())
	if err != nil {
		return nil, err
	}
	if !ok {
		return nil, errPathEnd
	}
	return p, nil
}

func atomicLoad(cc *callCtx) (Value, error) {
	p, err := cc.ptrArg(0)
	if err != nil {
		return nil, err
	}
	return cc.st.load(p)
}

func atomicStore(cc *callCtx) (Value, error) {
	p, err := cc.ptrArg(0)
	if err != nil {
		return nil, err
	}
	return Tuple{}, cc.st.store(p, cc.args[1])
}

func atomicAdd(cc *callCtx) (Value, error) {
	p, err := cc.ptrArg(0)
	if err != nil {
		return nil, err
	}
	v, err := cc.st.load(p)
	if err != nil {
		return nil, err
	}
	n := cc.c().Add(v.(*smt.Term), cc.term(1))
	return n, cc.st.store(p, n)
}

func atomicCAS(cc *callCtx) (Value, error) {
	p, err := cc.ptrArg(0)
	if err != nil {
		return nil, err
	}
	v, err := cc.st.load(p)
	if err != nil {
		return nil, err
	}
	c := cc.c()
	eq := c.Eq(v.(*smt.Term), cc.term(1))
	i, err := cc.ex.pickAlt(cc.st, nil, []*smt.Term{eq, c.Not(eq)})
	if err != nil {
		return nil, err
	}
	if i == 0 {
		return c.True, cc.st.store(p, cc.args[2])
	}
	return c.False, nil
}

func atomicPtrField(cc *callCtx) (*Ptr, error) {
	p, err := cc.ptrArg(0)
	if err != nil {
		return nil, err
	}
	st := under(deref(cc.fn.Signature.Recv().Type())).(*types.Struct)
	for i := 0; i < st.NumFields(); i++ {
		if st.Field(i).Name() == "v" {
			r := &Ptr{}
			for _, al := range p.Alts {
				if al.L != nil {
					r.Alts = append(r.Alts, PtrAlt{G: al.G, L: al.L.extend(Step{F: i})})
				}
			}
			return r, nil
		}
	}
	return nil, fmt.Errorf("internal: atomic.Pointer layout")
}

func atomicPtrLoad(cc *callCtx) (Value, error) {
	f, err := atomicPtrField(cc)
	if err != nil {
		return nil, err
	}
	return cc.st.load(f)
}

func atomicPtrStore(cc *callCtx) (Value, error) {
	f, err := atomicPtrField(cc)
	if err != nil {
		return nil, err
	}
	return Tuple{}, cc.st.store(f, cc.args[1])
}

// ---- time ----

func newTimer(cc *callCtx) (Value, error) {
	rt := cc.fn.Signature.Results().At(0).Type() // *time.Timer / *time.Ticker
	et := deref(rt)
	stt := under(et).(*types.Struct)
	v := cc.st.zero(et).(*Struct)
	nv := &Struct{T: stt, Fields: make([]Value, stt.NumFields())}
	copy(nv.Fields, v.Fields)
	for i := 0; i < stt.NumFields(); i++ {
		if stt.Field(i).Name() == "C" {
			ct := under(stt.Field(i).Type()).(*types.Chan)
			id := cc.st.newObj(&ChanObj{Elem: ct.Elem(), Cap: 1, Never: true}, nil, "timer.C")
			nv.Fields[i] = &ChanV{Obj: id}
		}
	}
	return cc.st.newPtr(nv, et, "timer"), nil
}

func cryptoRandRead(cc *callCtx) (Value, error) {
	c := cc.c()
	s := cc.args[0].(*Slice)
	n, err := cc.ex.concretize(cc.st, s.Len, "rand.Read length")
	if err != nil {
		return nil, err
	}
	for i := uint64(0); i < n; i++ {
		if err := cc.st.store(cc.ex.elemPtr(s, c.Const(64, i)), c.Var("rand", 8)); err != nil {
			return nil, err
		}
	}
	return Tuple{c.Const(64, n), &Iface{Alts: []IfaceAlt{{G: c.True}}}}, nil
}
