package sym

import (
	"fmt"
	"sort"

	"golang.org/x/tools/go/ssa"

	"verif/engine/smt"
)

// RunInit executes the package initialisers of the packages in RunInit
// concretely and freezes the resulting heap as the base heap of every state.
func (ex *Exec) RunInit() error {
	saved := ex.cfg
	ex.cfg.Concrete = true
	ex.cfg.Unwind = 1 << 30
	ex.cfg.MaxSteps = 1 << 40
	ex.lenient = true
	defer func() { ex.cfg = saved; ex.lenient = false }()

	ex.res = &Result{Covers: map[string]*CoverWitness{}, CoverIDs: map[string]bool{}, KnownSeen: map[string]int{}, Stubs: map[string]bool{}}
	st := ex.newState()
	st.isInit = true
	// create every global of the initialised packages up front
	var pkgs []*ssa.Package
	for _, p := range ex.prog.SSA.AllPackages() {
		if ex.prog.RunInit[p.Pkg.Path()] {
			pkgs = append(pkgs, p)
		}
	}
	sort.Slice(pkgs, func(i, j int) bool { return pkgs[i].Pkg.Path() < pkgs[j].Pkg.Path() })
	for _, p := range pkgs {
		var names []string
		for n, m := range p.Members {
			if _, ok := m.(*ssa.Global); ok {
				names = append(names, n)
			}
		}
		sort.Strings(names)
		for _, n := range names {
			if _, err := ex.globalPtr(st, p.Members[n].(*ssa.Global)); err != nil {
				return err
			}
		}
	}
	st.tasks = []*Task{{id: 0, name: "init"}}
	initFn := ex.prog.Pkg.Func("init")
	if _, err := ex.pushFrame(st, initFn, nil, nil, -1); err != nil {
		return err
	}
	ex.work = nil
	ex.runState(st)
	if len(ex.work) != 0 {
		return fmt.Errorf("init forked")
	}
	if len(ex.res.Violations) > 0 {
		return fmt.Errorf("init failed: %+v", ex.res.Violations[0])
	}
	for _, m := range ex.res.Incomplete {
		return fmt.Errorf("init incomplete: %s", m)
	}
	if !st.done {
		return fmt.Errorf("init did not finish")
	}
	for id, o := range st.heap {
		ex.base[id] = o
	}
	ex.InitNotes = st.notes
	ex.initSteps = st.steps
	ex.res = nil
	ex.nstates = 0
	return nil
}

var _ = smt.Sat
