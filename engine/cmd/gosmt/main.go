package main

import (
	"encoding/json"
	"flag"
	"fmt"
	"os"
	"path/filepath"
	"sort"
	"strconv"
	"strings"
	"time"

	"verif/engine/drv"
	"verif/engine/sym"
)

func usage() {
	fmt.Fprintln(os.Stderr, `usage:
  gosmt check <PROP> [--tier quick|thorough]   run every harness of a property, replay, write evidence
  gosmt run <Harness> [--tier ..] [--debug]    run one harness and print the result
  gosmt replay <file>                          replay a recorded counterexample natively
  gosmt list                                   list harnesses
  gosmt selftest                               differential validation of the reference models against x/net`)
	os.Exit(64)
}

func main() {
	if len(os.Args) < 2 {
		usage()
	}
	cmd := os.Args[1]
	fs := flag.NewFlagSet(cmd, flag.ExitOnError)
	tier := fs.String("tier", envOr("VERIF_TIER", "quick"), "quick or thorough")
	debug := fs.Bool("debug", false, "trace instructions")
	workers := fs.Int("workers", 14, "parallel harness workers")
	var pos []string
	args := os.Args[2:]
	for len(args) > 0 && !strings.HasPrefix(args[0], "-") {
		pos = append(pos, args[0])
		args = args[1:]
	}
	_ = fs.Parse(args)
	pos = append(pos, fs.Args()...)
	t := 0
	if *tier == "thorough" {
		t = 1
	}
	seed, _ := strconv.ParseInt(envOr("VERIF_SEED", "0"), 10, 64)
	o := drv.Options{Tier: t, Workers: *workers, Debug: *debug, Seed: seed}

	switch cmd {
	case "list":
		p := load()
		for _, n := range p.HarnessNames("") {
			fmt.Printf("%-8s %s\n", p.Harness[n].Prop, n)
		}
	case "run":
		if len(pos) != 1 {
			usage()
		}
		p := load()
		if p.Harness[pos[0]] == nil {
			fatal(64, "no such harness: %s", pos[0])
		}
		kf := drv.LoadKnown()
		o.Known = kf.OpenIDs(strings.Split(p.Harness[pos[0]].Prop, ",")[0])
		hr := drv.RunOne(p, pos[0], o)
		printRun(hr)
	case "check":
		if len(pos) != 1 {
			usage()
		}
		os.Exit(drv.Check(pos[0], o))
	case "selftest":
		os.Exit(drv.Selftest(load()))
	case "replay":
		if len(pos) != 1 {
			usage()
		}
		os.Exit(drv.ReplayFile(pos[0]))
	default:
		usage()
	}
}

func envOr(k, d string) string {
	if v := os.Getenv(k); v != "" {
		return v
	}
	return d
}

func fatal(code int, f string, a ...interface{}) {
	fmt.Fprintf(os.Stderr, f+"\n", a...)
	os.Exit(code)
}

func load() *sym.Program {
	t0 := time.Now()
	p, err := sym.Load(drv.RepoDir, drv.HarnessDir)
	if err != nil {
		if _, ok := err.(*sym.BuildError); ok {
			fatal(2, "CANNOT-BUILD %v", err)
		}
		fatal(3, "ENGINE-ERROR load: %v", err)
	}
	fmt.Fprintf(os.Stderr, "loaded in %.1fs\n", time.Since(t0).Seconds())
	return p
}

func printRun(hr *drv.HarnessRun) {
	if hr.Err != nil {
		fmt.Println("ERROR:", hr.Err)
		return
	}
	r := hr.Res
	fmt.Printf("harness %s: paths=%d forks=%d steps=%d obligations=%d discharged=%d (syntactic %d) killed=%d wall=%.2fs\n",
		r.Harness, r.Paths, r.Forks, r.Steps, r.Obligations, r.Discharged, r.SynDischarged, r.Killed, r.Wall.Seconds())
	fmt.Printf("  solver: queries=%d sat=%d unsat=%d unknown=%d cache=%d time=%.2fs\n", r.Solver.Queries, r.Solver.Sat, r.Solver.Unsat, r.Solver.Unknown, r.Solver.CacheHits, r.Solver.Time.Seconds())
	for _, m := range r.Incomplete {
		fmt.Println("  ", m)
	}
	var ids []string
	for id := range r.CoverIDs {
		ids = append(ids, id)
	}
	sort.Strings(ids)
	for _, id := range ids {
		if w := r.Covers[id]; w != nil {
			fmt.Printf("  cover %s: reached, witness %s\n", id, tapeStr(w.Tape))
		} else {
			fmt.Printf("  cover %s: NOT REACHED\n", id)
		}
	}
	for k, n := range r.KnownSeen {
		fmt.Printf("  known finding %s: region excluded on %d paths\n", k, n)
	}
	for _, v := range r.Violations {
		fmt.Printf("  VIOLATION-CANDIDATE kind=%s id=%q pos=%s detail=%q tape=%s\n", v.Kind, v.ID, v.Pos, v.Detail, tapeStr(v.Tape))
		for _, n := range v.Notes {
			fmt.Println("     note:", n)
		}
	}
	b, _ := json.Marshal(r.Samples)
	if len(b) < 600 {
		fmt.Println("  samples:", string(b))
	}
	_ = filepath.Join
}

func tapeStr(t []sym.TapeValue) string {
	var b strings.Builder
	b.WriteByte('[')
	for i, e := range t {
		if i > 0 {
			b.WriteByte(' ')
		}
		if i > 40 {
			b.WriteString("…")
			break
		}
		fmt.Fprintf(&b, "%s:%#x", e.Kind, e.V)
	}
	b.WriteByte(']')
	return b.String()
}
