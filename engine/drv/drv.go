// Package drv runs harnesses, replays solver models natively and writes
// evidence.
package drv

import (
	"bytes"
	"crypto/sha256"
	"encoding/hex"
	"encoding/json"
	"fmt"
	"os"
	"os/exec"
	"path/filepath"
	"regexp"
	"sort"
	"strings"
	"sync"
	"time"

	"golang.org/x/tools/go/ssa"

	"verif/engine/smt"
	"verif/engine/sym"
)

// VerifDir is the directory that holds bin/, harness/, evidence/ and
// known_findings.json: the parent of the directory of this executable (so a
// snapshot of /verif is self-contained), /verif as a fallback.
var VerifDir = func() string {
	if exe, err := os.Executable(); err == nil {
		d := filepath.Dir(filepath.Dir(exe))
		if st, err := os.Stat(filepath.Join(d, "harness")); err == nil && st.IsDir() {
			return d
		}
	}
	return "/verif"
}()

var HarnessDir = filepath.Join(VerifDir, "harness")

// RepoDir is /repo. VERIF_REPO overrides it for development only (running the
// engine against a scratch worktree while /repo is busy); registered commands
// never set it.
var RepoDir = func() string {
	if d := os.Getenv("VERIF_REPO"); d != "" {
		return d
	}
	return "/repo"
}()

type Options struct {
	Tier    int
	Workers int
	Debug   bool
	Seed    int64
	Known   map[string]bool
	// PathWorkers is the number of parallel path explorers per harness.
	PathWorkers int
}

type HarnessRun struct {
	Cfg *sym.HarnessCfg
	Res *sym.Result
	Err error
}

func tierName(t int) string {
	if t > 0 {
		return "thorough"
	}
	return "quick"
}

// RunOne runs a single harness with its own term table, solver and init.
func RunOne(p *sym.Program, name string, o Options) *HarnessRun {
	hc := p.Harness[name]
	hr := &HarnessRun{Cfg: hc}
	fn := p.Pkg.Func(name)
	if fn == nil {
		hr.Err = fmt.Errorf("harness %s not found", name)
		return hr
	}
	cfg := sym.Config{Tier: o.Tier, Debug: o.Debug, Known: o.Known, SchedFork: hc.Sched}
	cfg.Unwind = hc.Unwind
	if o.Tier > 0 && hc.UnwindT > 0 {
		cfg.Unwind = hc.UnwindT
	}
	to := hc.Timeout
	if o.Tier > 0 && hc.TimeoutT > 0 {
		to = hc.TimeoutT
	}
	if to == 0 {
		to = 240
		if o.Tier > 0 {
			to = 1500
		}
	}
	cfg.Deadline = time.Now().Add(time.Duration(to) * time.Second)
	cfg.MaxConc = hc.MaxConc
	cfg.MaxStates = hc.MaxStates
	cfg.Replace = map[string]*ssa.Function{}
	for _, u := range hc.Use {
		tgt, ok := p.Stubs[u]
		if !ok {
			hr.Err = fmt.Errorf("harness %s uses unknown stub %s", name, u)
			return hr
		}
		cfg.Replace[tgt] = p.Pkg.Func(u)
	}
	cfg.Pure = map[string]bool{}
	for _, n := range hc.Pure {
		if !strings.Contains(n, ".") {
			n = "github.com/dgrr/http2." + n
		}
		cfg.Pure[n] = true
	}
	ex := sym.NewExec(p, cfg)
	mk := func() *smt.Solver {
		solver := smt.NewSolver(ex.Ctx())
		if o.Tier > 0 {
			solver.TimeoutMS = 120000
			solver.CrossEvery = 20
			solver.CrossTimeoutMS = 10000
		} else {
			solver.CrossEvery = 100
		}
		if d := os.Getenv("GOSMT_DUMP"); d != "" {
			solver.DumpDir = d
			solver.DumpSlowMS = 500
			_ = os.MkdirAll(d, 0o755)
		}
		return solver
	}
	solver := mk()
	defer solver.Close()
	ex.SetSolver(solver)
	nw := o.PathWorkers
	if nw == 0 {
		nw = 8
	}
	ex.SetSolverFactory(nw, mk)
	if os.Getenv("GOSMT_HIST") != "" {
		ex.PathHist = map[string]int{}
		defer func() {
			for k, v := range ex.PathHist {
				fmt.Fprintf(os.Stderr, "HIST %6d %s\n", v, k)
			}
		}()
	}
	if err := ex.RunInit(); err != nil {
		hr.Err = err
		return hr
	}
	hr.Res = ex.RunHarness(fn)
	return hr
}

// RunAll runs the named harnesses on a pool of workers.
func RunAll(p *sym.Program, names []string, o Options) []*HarnessRun {
	out := make([]*HarnessRun, len(names))
	w := o.Workers
	if w <= 0 {
		w = 8
	}
	sem := make(chan struct{}, w)
	var wg sync.WaitGroup
	for i, n := range names {
		hc := p.Harness[n]
		if hc.Tier != "" && hc.Tier != tierName(o.Tier) {
			continue
		}
		wg.Add(1)
		go func(i int, n string) {
			defer wg.Done()
			sem <- struct{}{}
			defer func() { <-sem }()
			defer func() {
				if r := recover(); r != nil {
					out[i] = &HarnessRun{Cfg: p.Harness[n], Err: fmt.Errorf("engine panic in %s: %v", n, r)}
				}
			}()
			out[i] = RunOne(p, n, o)
		}(i, n)
	}
	wg.Wait()
	var res []*HarnessRun
	for _, r := range out {
		if r != nil {
			res = append(res, r)
		}
	}
	return res
}

// ---- native replay ----

type ReplayCase struct {
	Harness string          `json:"harness"`
	Tier    int             `json:"tier"`
	Tape    []sym.TapeValue `json:"tape"`
	Expect  string          `json:"expect"` // "assert:<id>", "trap", "panic", "pass", "cover:<id>"
	Kind    string          `json:"kind,omitempty"`
	ID      string          `json:"id,omitempty"`
	Pos     string          `json:"pos,omitempty"`
	Detail  string          `json:"detail,omitempty"`
	Prop    string          `json:"property,omitempty"`
}

type ReplayOutcome struct {
	Outcome string   // pass | assert:<id> | panic:<msg> | assume | unsupported | tape
	Covers  []string
}

var caseRe = regexp.MustCompile(`^VERIF-CASE (\d+) outcome=(.*?) covers=(.*)$`)

const replayTestSrc = `package http2

import (
	"encoding/json"
	"fmt"
	"os"
	"runtime"
	"sort"
	"strings"
	"testing"
	"time"
)

type vReplayCase struct {
	Harness string ` + "`json:\"harness\"`" + `
	Tier    int    ` + "`json:\"tier\"`" + `
	Tape    []struct {
		Kind string ` + "`json:\"kind\"`" + `
		V    uint64 ` + "`json:\"v\"`" + `
	} ` + "`json:\"tape\"`" + `
}

// vRunCase runs one case on its own goroutine: a harness that does not come
// back (the code under test has deadlocked the caller) is reported as
// "blocked" instead of hanging the whole replay.
func vRunCase(c vReplayCase) string {
	if vHarnesses[c.Harness] == nil {
		return "noharness"
	}
	res := make(chan string, 1)
	go func() { res <- vRunCase1(c) }()
	select {
	case o := <-res:
		return o
	case <-time.After(20 * time.Second):
		return "blocked"
	}
}

func vRunCase1(c vReplayCase) (outcome string) {
	fn := vHarnesses[c.Harness]
	vTape = vTape[:0]
	for _, e := range c.Tape {
		vTape = append(vTape, e.V)
	}
	vPos = 0
	vTierN = c.Tier
	vCovered = map[string]bool{}
	vGoBase = vPkgGoroutines()
	defer func() {
		if r := recover(); r != nil {
			switch x := r.(type) {
			case vAssertFailed:
				outcome = "assert:" + x.id
			case vAssumeFailed:
				outcome = "assume"
			case vUnsupportedT:
				outcome = "unsupported"
			default:
				msg := strings.ReplaceAll(fmt.Sprint(r), "\n", " ")
				if strings.HasPrefix(msg, "verif: tape") {
					outcome = "tape"
				} else {
					outcome = "panic:" + msg
				}
			}
		}
	}()
	fn()
	return "pass"
}

func TestVerifReplay(t *testing.T) {
	runtime.GOMAXPROCS(1) // sync.Pool then behaves like the executor's LIFO model
	raw, err := os.ReadFile(os.Getenv("VERIF_REPLAY"))
	if err != nil {
		t.Fatal(err)
	}
	var cases []vReplayCase
	if err := json.Unmarshal(raw, &cases); err != nil {
		t.Fatal(err)
	}
	for i, c := range cases {
		out := vRunCase(c)
		var cov []string
		for k := range vCovered {
			cov = append(cov, k)
		}
		sort.Strings(cov)
		fmt.Printf("VERIF-CASE %d outcome=%s covers=%s\n", i, out, strings.Join(cov, ","))
	}
}
`

// Replay runs the cases natively against /repo's working tree in one go test.
func Replay(p *sym.Program, cases []ReplayCase) ([]ReplayOutcome, error) {
	if len(cases) == 0 {
		return nil, nil
	}
	tmp, err := os.MkdirTemp("", "verif-replay-")
	if err != nil {
		return nil, err
	}
	defer os.RemoveAll(tmp)
	var reg bytes.Buffer
	reg.WriteString("package http2\n\nvar vHarnesses = map[string]func(){\n")
	names := make([]string, 0, len(p.Harness))
	for n := range p.Harness {
		if p.Pkg.Func(n) != nil {
			names = append(names, n)
		}
	}
	sort.Strings(names)
	for _, n := range names {
		fmt.Fprintf(&reg, "\t%q: %s,\n", n, n)
	}
	reg.WriteString("}\n")
	regPath := filepath.Join(tmp, "registry.go")
	testPath := filepath.Join(tmp, "replay_test.go")
	casesPath := filepath.Join(tmp, "cases.json")
	if err := os.WriteFile(regPath, reg.Bytes(), 0o644); err != nil {
		return nil, err
	}
	if err := os.WriteFile(testPath, []byte(replayTestSrc), 0o644); err != nil {
		return nil, err
	}
	cj, _ := json.Marshal(cases)
	if err := os.WriteFile(casesPath, cj, 0o644); err != nil {
		return nil, err
	}
	ov := map[string]map[string]string{"Replace": {}}
	for virt, real := range p.Files {
		ov["Replace"][virt] = real
	}
	ov["Replace"][filepath.Join(RepoDir, "zz_verif_registry.go")] = regPath
	ov["Replace"][filepath.Join(RepoDir, "zz_verif_replay_test.go")] = testPath
	oj, _ := json.Marshal(ov)
	ovPath := filepath.Join(tmp, "overlay.json")
	if err := os.WriteFile(ovPath, oj, 0o644); err != nil {
		return nil, err
	}
	cmd := exec.Command("go", "test", "-v", "-vet=off", "-count=1", "-overlay", ovPath, "-run", "^TestVerifReplay$", "-timeout", "600s", ".")
	cmd.Dir = RepoDir
	env := []string{}
	for _, e := range os.Environ() {
		if strings.HasPrefix(e, "GOTOOLCHAIN=") || strings.HasPrefix(e, "GOFLAGS=") || strings.HasPrefix(e, "PATH=") {
			continue
		}
		env = append(env, e)
	}
	// /repo's go.mod selects its own toolchain; use the default go for it.
	env = append(env, "GOFLAGS=-mod=mod", "GOPROXY=off", "GOSUMDB=off", "VERIF_REPLAY="+casesPath, "PATH="+nativePath())
	cmd.Env = env
	outB, runErr := cmd.CombinedOutput()
	if os.Getenv("VERIF_VERBOSE") != "" {
		os.Stderr.Write(outB)
	}
	outs := make([]ReplayOutcome, len(cases))
	seen := 0
	for _, line := range strings.Split(string(outB), "\n") {
		m := caseRe.FindStringSubmatch(strings.TrimSpace(line))
		if m == nil {
			continue
		}
		var i int
		fmt.Sscanf(m[1], "%d", &i)
		if i < 0 || i >= len(outs) {
			continue
		}
		outs[i].Outcome = m[2]
		if m[3] != "" {
			outs[i].Covers = strings.Split(m[3], ",")
		}
		seen++
	}
	if seen != len(cases) {
		return outs, fmt.Errorf("native replay produced %d of %d results (%v):\n%s", seen, len(cases), runErr, tail(string(outB), 4000))
	}
	return outs, nil
}

func nativePath() string {
	// drop the go1.26.8 bin directory that the engine itself needs in front
	var parts []string
	for _, d := range strings.Split(os.Getenv("PATH"), ":") {
		if strings.Contains(d, "go1.26.8") {
			continue
		}
		parts = append(parts, d)
	}
	return strings.Join(parts, ":")
}

func tail(s string, n int) string {
	if len(s) > n {
		return s[len(s)-n:]
	}
	return s
}

// SourceHash hashes the non-test Go sources of /repo (what the encoding was
// generated from).
func SourceHash() string {
	h := sha256.New()
	var files []string
	for _, pat := range []string{"*.go", "http2utils/*.go"} {
		m, _ := filepath.Glob(filepath.Join(RepoDir, pat))
		files = append(files, m...)
	}
	sort.Strings(files)
	for _, f := range files {
		if strings.HasSuffix(f, "_test.go") {
			continue
		}
		b, err := os.ReadFile(f)
		if err == nil {
			h.Write([]byte(f))
			h.Write(b)
		}
	}
	return hex.EncodeToString(h.Sum(nil))[:16]
}

// Selftest validates the reference models (the oracles of the harnesses)
// against golang.org/x/net/http2/hpack with a native differential test laid
// over /repo. It decides no property.
func Selftest(p *sym.Program) int {
	tmp, err := os.MkdirTemp("", "verif-selftest-")
	if err != nil {
		fmt.Println("ENGINE-ERROR selftest:", err)
		return 3
	}
	defer os.RemoveAll(tmp)
	ov := map[string]map[string]string{"Replace": {}}
	for virt, real := range p.Files {
		ov["Replace"][virt] = real
	}
	ov["Replace"][filepath.Join(RepoDir, "zz_verif_oracle_test.go")] = filepath.Join(VerifDir, "tools", "oracle", "zz_verif_oracle_test.go")
	oj, _ := json.Marshal(ov)
	ovPath := filepath.Join(tmp, "overlay.json")
	if err := os.WriteFile(ovPath, oj, 0o644); err != nil {
		fmt.Println("ENGINE-ERROR selftest:", err)
		return 3
	}
	cmd := exec.Command("go", "test", "-v", "-vet=off", "-count=1", "-overlay", ovPath, "-run", "^TestVerifOracle", "-timeout", "1800s", ".")
	cmd.Dir = RepoDir
	env := []string{}
	for _, e := range os.Environ() {
		if strings.HasPrefix(e, "GOTOOLCHAIN=") || strings.HasPrefix(e, "GOFLAGS=") || strings.HasPrefix(e, "PATH=") {
			continue
		}
		env = append(env, e)
	}
	cmd.Env = append(env, "GOFLAGS=-mod=mod", "GOPROXY=off", "GOSUMDB=off", "PATH="+nativePath())
	out, runErr := cmd.CombinedOutput()
	for _, l := range strings.Split(string(out), "\n") {
		if strings.HasPrefix(l, "VERIF-ORACLE") || strings.HasPrefix(l, "--- ") || strings.Contains(l, "zz_verif_oracle_test.go") {
			fmt.Println(l)
		}
	}
	if runErr != nil {
		fmt.Println("SELFTEST-FAILED: a reference model disagrees with golang.org/x/net/http2/hpack (or the test did not build):")
		fmt.Println(tail(string(out), 3000))
		return 3
	}
	fmt.Println("SELFTEST-OK reference HPACK decoder and Huffman codec agree with golang.org/x/net/http2/hpack")
	return 0
}
