package drv

import (
	"encoding/json"
	"fmt"
	"os"
	"path/filepath"
	"sort"
	"strings"
	"time"

	"verif/engine/sym"
)

// ---- known findings ----

type KnownFinding struct {
	Property string          `json:"property"`
	ID       string          `json:"id"`
	Status   string          `json:"status"` // open | fixed
	What     string          `json:"what"`
	Harness  string          `json:"harness,omitempty"`
	Tier     int             `json:"tier,omitempty"`
	Tape     []sym.TapeValue `json:"tape,omitempty"`
	Expect   string          `json:"expect,omitempty"`
	Commit   string          `json:"commit,omitempty"`
	Line     string          `json:"line,omitempty"`
}

type KnownFile struct {
	Findings []KnownFinding `json:"findings"`
}

func LoadKnown() *KnownFile {
	kf := &KnownFile{}
	b, err := os.ReadFile(filepath.Join(VerifDir, "known_findings.json"))
	if err != nil {
		return kf
	}
	if err := json.Unmarshal(b, kf); err != nil {
		fmt.Fprintf(os.Stderr, "ENGINE-ERROR known_findings.json: %v\n", err)
		os.Exit(3)
	}
	return kf
}

func (k *KnownFile) OpenIDs(prop string) map[string]bool {
	m := map[string]bool{}
	for _, f := range k.Findings {
		if f.Property == prop && f.Status == "open" {
			m[f.ID] = true
		}
	}
	return m
}

// ---- evidence ----

type HarnessEvidence struct {
	Name          string            `json:"name"`
	Unwind        int               `json:"unwind"`
	Paths         int               `json:"paths"`
	Forks         int               `json:"forks"`
	Steps         int               `json:"steps"`
	BranchSyn     int               `json:"branches_syntactic"`
	BranchSolver  int               `json:"branches_solver"`
	Obligations   int               `json:"obligations"`
	Discharged    int               `json:"discharged"`
	SynDischarged int               `json:"discharged_syntactically"`
	Assumes       int               `json:"assume_calls"`
	DeadPaths     int               `json:"paths_ended_by_assumption"`
	SolverQueries int               `json:"solver_queries"`
	Sat           int               `json:"sat"`
	Unsat         int               `json:"unsat"`
	Unknown       int               `json:"unknown"`
	CacheHits     int               `json:"cache_hits"`
	SolverTimeS   float64           `json:"solver_time_s"`
	PerBackend    map[string]string `json:"per_backend"`
	CrossChecked  int               `json:"unsat_cross_checked_on_second_solver"`
	CrossBad      int               `json:"cross_check_disagreements"`
	WallS         float64           `json:"wall_s"`
	Covers        map[string]bool   `json:"covers"`
	Incomplete    []string          `json:"incomplete,omitempty"`
	Violations    int               `json:"violation_candidates"`
	KnownExcluded map[string]int    `json:"known_finding_regions_excluded,omitempty"`
	Stubs         []string          `json:"stubs,omitempty"`
}

type Evidence struct {
	PropertyID  string   `json:"property_id"`
	Tier        string   `json:"tier"`
	Seed        int64    `json:"seed"`
	Level       string   `json:"level"`
	Coverage    Coverage `json:"coverage"`
	Assumptions []string `json:"assumptions"`
	WallS       float64  `json:"wall_s"`
	Violations  int      `json:"violations"`
}

type Coverage struct {
	States         int               `json:"states"`
	Transitions    int               `json:"transitions"`
	TracesVal      int               `json:"traces_validated_against_impl"`
	Samples        []interface{}     `json:"samples"`
	Obligations    int               `json:"obligations"`
	Discharged     int               `json:"discharged"`
	Exhaustive     bool              `json:"exhaustive_within_bound"`
	Functions      []string          `json:"functions_encoded"`
	SourceHash     string            `json:"repo_source_sha256_16"`
	Harnesses      []HarnessEvidence `json:"harnesses"`
	Bounds         string            `json:"bounds"`
	OutsideBounds  string            `json:"outside_bounds"`
	KnownFindings  []string          `json:"known_findings_seen"`
	SolverBackends []string          `json:"solver_backends"`
	Explanation    string            `json:"explanation"`
}

func writeJSON(path string, v interface{}) error {
	b, err := json.MarshalIndent(v, "", " ")
	if err != nil {
		return err
	}
	if err := os.MkdirAll(filepath.Dir(path), 0o755); err != nil {
		return err
	}
	return os.WriteFile(path, append(b, '\n'), 0o644)
}

// PropMeta carries the per-property texts for evidence (bounds, what lies
// outside); read from /verif/props_meta.json.
type PropMeta struct {
	Bounds      string   `json:"bounds"`
	Outside     string   `json:"outside"`
	Assumptions []string `json:"assumptions"`
}

func loadMeta(prop string) PropMeta {
	var all map[string]PropMeta
	b, err := os.ReadFile(filepath.Join(VerifDir, "props_meta.json"))
	if err == nil {
		_ = json.Unmarshal(b, &all)
	}
	return all[prop]
}

// Check runs every harness of a property and returns the process exit code.
func Check(prop string, o Options) int {
	t0 := time.Now()
	p, err := sym.Load(RepoDir, HarnessDir)
	if err != nil {
		if _, ok := err.(*sym.BuildError); ok {
			fmt.Printf("CANNOT-BUILD property=%s %v\n", prop, err)
			return 2
		}
		fmt.Printf("ENGINE-ERROR property=%s load: %v\n", prop, err)
		return 3
	}
	names := p.HarnessNames(prop)
	staleFiles := 0
	for f, m := range p.Stale {
		fmt.Printf("STALE property=%s harness file %s does not compile against this tree (%s); its harnesses are skipped\n", prop, f, m)
		staleFiles++
	}
	if len(names) == 0 {
		if staleFiles > 0 {
			fmt.Printf("INCONCLUSIVE property=%s every harness of the property is stale\n", prop)
			return 3
		}
		fmt.Printf("ENGINE-ERROR property=%s has no harness\n", prop)
		return 3
	}
	kf := LoadKnown()
	o.Known = kf.OpenIDs(prop)
	runs := RunAll(p, names, o)

	exit := 0
	engineErr := func(f string, a ...interface{}) {
		fmt.Printf("ENGINE-ERROR property=%s "+f+"\n", append([]interface{}{prop}, a...)...)
		if exit == 0 || exit == 4 {
			exit = 3
		}
	}

	// collect replay cases
	type pending struct {
		c    ReplayCase
		role string // violation | cover | known
		v    *sym.Violation
		kf   *KnownFinding
		hr   *HarnessRun
	}
	var pend []pending
	for _, hr := range runs {
		if hr.Err != nil {
			engineErr("harness %s: %v", hr.Cfg.Name, hr.Err)
			continue
		}
		r := hr.Res
		for i := range r.Violations {
			v := &r.Violations[i]
			exp := "panic"
			if v.Kind == "assert" {
				exp = "assert:" + v.ID
			}
			pend = append(pend, pending{role: "violation", v: v, hr: hr,
				c: ReplayCase{Harness: r.Harness, Tier: o.Tier, Tape: v.Tape, Expect: exp, Kind: v.Kind, ID: v.ID, Pos: v.Pos, Detail: v.Detail, Prop: prop}})
		}
		var cids []string
		for id := range r.Covers {
			cids = append(cids, id)
		}
		sort.Strings(cids)
		for _, id := range cids {
			pend = append(pend, pending{role: "cover", hr: hr,
				c: ReplayCase{Harness: r.Harness, Tier: o.Tier, Tape: r.Covers[id].Tape, Expect: "cover:" + id, Prop: prop}})
		}
	}
	for i := range kf.Findings {
		f := &kf.Findings[i]
		if f.Property != prop || f.Status != "open" || f.Harness == "" {
			continue
		}
		if p.Pkg.Func(f.Harness) == nil {
			engineErr("known finding %s names missing harness %s", f.ID, f.Harness)
			continue
		}
		pend = append(pend, pending{role: "known", kf: f,
			c: ReplayCase{Harness: f.Harness, Tier: f.Tier, Tape: f.Tape, Expect: f.Expect, Prop: prop}})
	}
	cases := make([]ReplayCase, len(pend))
	for i, pd := range pend {
		cases[i] = pd.c
	}
	outs, rerr := Replay(p, cases)
	if rerr != nil {
		engineErr("native replay: %v", rerr)
	}

	validated := 0
	nviol := 0
	var knownSeen []string
	outDir := VerifDir
	if d := os.Getenv("VERIF_OUT"); d != "" {
		outDir = d // mutant evaluation: keep the committed evidence untouched
	}
	replayDir := filepath.Join(outDir, "replays", prop)
	for i, pd := range pend {
		if rerr != nil {
			break
		}
		out := outs[i]
		switch pd.role {
		case "violation":
			confirmed := false
			switch {
			case pd.v.Kind == "assert":
				confirmed = out.Outcome == "assert:"+pd.v.ID
			case pd.v.Kind == "trap" || pd.v.Kind == "panic":
				confirmed = strings.HasPrefix(out.Outcome, "panic:")
			case pd.v.Kind == "deadlock" && out.Outcome == "blocked":
				// the harness itself never comes back, natively as well
				confirmed = true
			case pd.v.Kind == "pool" || pd.v.Kind == "deadlock":
				// ghost facts have no native observable unless the harness
				// turns them into assertions; they are reported as engine
				// diagnostics, not as violations.
				engineErr("harness %s: ghost obligation %s (%s) has no native confirmation: %s", pd.c.Harness, pd.v.Kind, pd.v.ID, pd.v.Detail)
				continue
			}
			if confirmed {
				validated++
				nviol++
				path := filepath.Join(replayDir, fmt.Sprintf("%s-%d.json", pd.c.Harness, nviol))
				pc := pd.c
				pc.Detail = pd.v.Detail + " | native outcome: " + out.Outcome
				_ = writeJSON(path, pc)
				fmt.Printf("VIOLATION property=%s replay=%s harness=%s kind=%s id=%q at=%s native=%q\n", prop, path, pd.c.Harness, pd.v.Kind, pd.v.ID, pd.v.Pos, out.Outcome)
				exit = 1
			} else {
				engineErr("harness %s: counterexample for %s %q at %s did not reproduce natively (native outcome %q); encoding or model is wrong, nothing is claimed", pd.c.Harness, pd.v.Kind, pd.v.ID, pd.v.Pos, out.Outcome)
			}
		case "cover":
			id := strings.TrimPrefix(pd.c.Expect, "cover:")
			okc := false
			for _, c := range out.Covers {
				if c == id {
					okc = true
				}
			}
			if okc && (out.Outcome == "pass" || strings.HasPrefix(out.Outcome, "assert:") || strings.HasPrefix(out.Outcome, "panic:")) {
				validated++
			} else {
				engineErr("harness %s: cover witness %s did not reproduce natively (outcome %q covers %v)", pd.c.Harness, id, out.Outcome, out.Covers)
			}
		case "known":
			still := out.Outcome == pd.kf.Expect || (pd.kf.Expect == "panic" && strings.HasPrefix(out.Outcome, "panic:"))
			if still {
				validated++
				fmt.Printf("KNOWN-FINDING: property=%s %s [%s]\n", prop, pd.kf.What, pd.kf.ID)
				knownSeen = append(knownSeen, pd.kf.ID)
			} else {
				fmt.Printf("NOTE property=%s known finding %s no longer reproduces natively (outcome %q); its region is still excluded until the entry is marked fixed\n", prop, pd.kf.ID, out.Outcome)
			}
		}
	}

	// vacuity and completeness
	ev := Evidence{PropertyID: prop, Tier: tierName(o.Tier), Seed: o.Seed, Level: "model_checking"}
	meta := loadMeta(prop)
	cov := &ev.Coverage
	cov.SourceHash = SourceHash()
	cov.Bounds = meta.Bounds
	cov.OutsideBounds = meta.Outside
	cov.SolverBackends = []string{"z3 5.1.0 (z3-new -in), primary", "z3 4.8.12 (/usr/bin/z3 -in), fallback and cross-check", "cvc5 1.0 --incremental, fallback"}
	cov.KnownFindings = knownSeen
	cov.Exhaustive = true
	funcs := map[string]bool{}
	for _, hr := range runs {
		if hr.Err != nil {
			continue
		}
		r := hr.Res
		he := HarnessEvidence{Name: r.Harness, Unwind: hr.Cfg.Unwind, Paths: r.Paths, Forks: r.Forks, Steps: r.Steps, BranchSyn: r.BranchSyn,
			BranchSolver: r.BranchSolver, Obligations: r.Obligations, Discharged: r.Discharged, SynDischarged: r.SynDischarged,
			Assumes: r.Assumes, DeadPaths: r.Killed, SolverQueries: r.Solver.Queries, Sat: r.Solver.Sat, Unsat: r.Solver.Unsat,
			Unknown: r.Solver.Unknown, CacheHits: r.Solver.CacheHits, SolverTimeS: r.Solver.Time.Seconds(), WallS: r.Wall.Seconds(),
			Covers: map[string]bool{}, Incomplete: r.Incomplete, Violations: len(r.Violations), KnownExcluded: r.KnownSeen,
			PerBackend: map[string]string{}, CrossChecked: r.Solver.CrossOK + r.Solver.CrossBad, CrossBad: r.Solver.CrossBad}
		if o.Tier > 0 && hr.Cfg.UnwindT > 0 {
			he.Unwind = hr.Cfg.UnwindT
		}
		for n, bs := range r.Solver.PerBE {
			he.PerBackend[n] = fmt.Sprintf("queries=%d unknown=%d time=%.2fs", bs.Queries, bs.Unknown, bs.Time.Seconds())
		}
		for s := range r.Stubs {
			he.Stubs = append(he.Stubs, s)
		}
		sort.Strings(he.Stubs)
		for id := range r.CoverIDs {
			he.Covers[id] = r.Covers[id] != nil
			if r.Covers[id] == nil && len(r.Violations) == 0 {
				engineErr("harness %s is VACUOUS: cover %s is unreachable", r.Harness, id)
			}
		}
		if r.Solver.CrossBad > 0 {
			engineErr("harness %s: %d unsat answers were sat on the second solver", r.Harness, r.Solver.CrossBad)
		}
		if r.Paths == 0 && len(r.Violations) == 0 {
			engineErr("harness %s completed no path", r.Harness)
		}
		for _, m := range r.Incomplete {
			fmt.Printf("INCOMPLETE property=%s harness=%s %s\n", prop, r.Harness, m)
			cov.Exhaustive = false
			if exit == 0 {
				exit = 4
			}
		}
		cov.States += r.Paths
		cov.Transitions += r.BranchSyn + r.BranchSolver
		cov.Obligations += r.Obligations
		cov.Discharged += r.Discharged
		for f := range r.Funcs {
			funcs[f] = true
		}
		for _, s := range r.Samples {
			if len(cov.Samples) < 6 {
				cov.Samples = append(cov.Samples, map[string]interface{}{"harness": r.Harness, "tape": s})
			}
		}
		cov.Harnesses = append(cov.Harnesses, he)
	}
	for f := range funcs {
		if !strings.Contains(f, "VerifH_") {
			cov.Functions = append(cov.Functions, f)
		}
	}
	sort.Strings(cov.Functions)
	cov.TracesVal = validated
	if len(cov.Samples) == 0 {
		cov.Samples = []interface{}{"no completed path"}
	}
	if cov.States == 0 {
		cov.States = 1 // schema minimum; Harnesses carries the real counts
		cov.Exhaustive = false
	}
	if cov.Transitions == 0 {
		cov.Transitions = 1
	}
	cov.Explanation = "states = completed symbolic paths; transitions = branch decisions (syntactic + solver); obligations = vAssert calls and implicit run-time checks; traces_validated_against_impl = solver models (cover witnesses, counterexamples, known-finding witnesses) replayed natively with go test -overlay"
	ev.Assumptions = append([]string{
		"bounded: every claim is for inputs within the stated bounds and loop unwindings; unwinding assertions are checked",
		"models: sync.Pool as LIFO list, sync/atomic as plain sequentially consistent accesses, time as opaque with timers that never fire, fmt/log as opaque, bytes.Equal as built-in; dependency code (bufio, io, bytes, errors) executed from its own SSA",
		"slice bounds and lengths of positional arrays are concretised by case split; map iteration is in insertion order",
	}, meta.Assumptions...)
	ev.WallS = time.Since(t0).Seconds()
	ev.Violations = nviol
	if err := writeJSON(filepath.Join(outDir, "evidence", prop+".json"), ev); err != nil {
		engineErr("writing evidence: %v", err)
	}
	if exit == 0 && staleFiles > 0 {
		fmt.Printf("INCONCLUSIVE property=%s some harness files are stale; the remaining harnesses found nothing\n", prop)
		return 3
	}
	if exit == 4 {
		// incomplete exploration is not success and not a violation
		fmt.Printf("INCONCLUSIVE property=%s exploration incomplete within the registered bound\n", prop)
		return 3
	}
	if exit == 0 {
		fmt.Printf("OK property=%s tier=%s harnesses=%d paths=%d obligations=%d discharged=%d replays=%d wall=%.1fs\n", prop, tierName(o.Tier), len(runs), cov.States, cov.Obligations, cov.Discharged, validated, ev.WallS)
	}
	return exit
}

// ReplayFile replays one recorded counterexample; exit 1 when it still fails.
func ReplayFile(path string) int {
	b, err := os.ReadFile(path)
	if err != nil {
		fmt.Println("ENGINE-ERROR", err)
		return 3
	}
	var c ReplayCase
	if err := json.Unmarshal(b, &c); err != nil {
		fmt.Println("ENGINE-ERROR", err)
		return 3
	}
	p, err := sym.Load(RepoDir, HarnessDir)
	if err != nil {
		fmt.Println("CANNOT-BUILD", err)
		return 2
	}
	outs, err := Replay(p, []ReplayCase{c})
	if err != nil {
		fmt.Println("ENGINE-ERROR", err)
		return 3
	}
	fmt.Printf("replay %s: harness=%s expect=%s native outcome=%s\n", path, c.Harness, c.Expect, outs[0].Outcome)
	if outs[0].Outcome == c.Expect || (c.Expect == "panic" && strings.HasPrefix(outs[0].Outcome, "panic:")) {
		fmt.Printf("VIOLATION property=%s replay=%s\n", c.Prop, path)
		return 1
	}
	return 0
}
