#!/bin/sh
# check.sh <PROP> <quick|thorough>: (re)builds the engine if needed and runs
# every harness of the property against /repo's current working tree.
cd "$(dirname "$0")"
if [ ! -x bin/gosmt ] || [ -n "$(find engine -name '*.go' -newer bin/gosmt 2>/dev/null | head -1)" ]; then
  ./build.sh || { echo "ENGINE-ERROR cannot build gosmt"; exit 3; }
fi
# the engine's go/packages loader must see go1.26.8 first
PATH=/opt/veriftools/go1.26.8/bin:$PATH exec ./bin/gosmt check "$1" --tier "${2:-quick}"
