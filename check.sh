#!/bin/sh
# check.sh <PROP> <quick|thorough> | check.sh selftest: (re)builds the engine if needed and runs
# every harness of the property against /repo's current working tree.
cd "$(dirname "$0")"
if [ ! -x bin/gosmt ] || [ -n "$(find engine -name '*.go' -newer bin/gosmt 2>/dev/null | head -1)" ]; then
  ./build.sh || { echo "ENGINE-ERROR cannot build gosmt"; exit 3; }
fi
# the engine's go/packages loader must see go1.26.8 first
if [ "$1" = selftest ]; then
  # validates the reference models (the harnesses' oracles) against x/net's hpack package
  PATH=/opt/veriftools/go1.26.8/bin:$PATH exec ./bin/gosmt selftest
fi
PATH=/opt/veriftools/go1.26.8/bin:$PATH exec ./bin/gosmt check "$1" --tier "${2:-quick}"
