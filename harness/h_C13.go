package http2

import (
	"fmt"

	"github.com/valyala/fasthttp"
)

// C13 — server work and memory per connection stay within the configured
// limits.

// MaxConcurrentStreams = 2 and handlers that do not return. Five requests,
// with a symbolic choice of which running stream the peer cancels in between
// and when a handler is released: the number of handlers that have started and
// not returned never exceeds 2, a cancelled stream keeps its slot until its
// handler returns, and a freed slot is usable again.
//
//verif:harness prop=C13 unwind=64 timeout=600
func VerifH_C13_slots() {
	s := vStartServer(2)
	s.hold = true
	running := 0 // handlers started and not yet released
	released := 0
	next := uint32(1)
	open := func() *vReaction {
		id := next
		next += 2
		s.send(vFrame(0x1, 0x5, id, vReqBlock(byte('0'+id%10))))
		return vClassify(s.replies())
	}
	for step := 0; step < vPick(5, 7); step++ {
		switch vRange(0, 2) {
		case 0: // a new request
			before := len(s.handled)
			r := open()
			started := len(s.handled) - before
			running += started
			vNote(fmt.Sprintf("step %d open id=%d started=%d running=%d rst=%v", step, next-2, started, running, r.rst))
			vAssert(running <= 2, "C13.slots.handlers-within-max-concurrent-streams")
			if running-started >= 2 {
				vAssert(started == 0 && r.rst[next-2] == RefusedStreamError, "C13.slots.over-limit-is-refused")
			} else {
				vAssert(started == 1, "C13.slots.free-slot-is-used")
			}
			vAssert(!r.goaway, "C13.slots.no-connection-error")
		case 1: // the peer cancels the oldest request it has open
			if next > 1 {
				s.send(vFrame(0x3, 0x0, 1, []byte{0, 0, 0, 8}))
				r := vClassify(s.replies())
				vAssert(!r.goaway, "C13.slots.cancel-is-not-an-error")
			}
		default: // one handler returns
			if running > 0 {
				s.gate <- struct{}{}
				vSettle()
				s.replies()
				running--
				released++
			}
		}
	}
	vPoolsSane("C13.slots")
	vCover("C13.slots.refused", next >= 7 && running == 2)
	vCover("C13.slots.reuse", released >= 1 && len(s.handled) >= 3)
}

// A header field that never completes: one CONTINUATION frame of 0..12 bytes
// arrives while 0..140 bytes of an unfinished field are already buffered, with
// MaxHeaderListSize 32. Whatever is kept for the next frame stays within four
// times the configured limit (the encoded form of a field is at most 30/8 of
// its decoded size), so the buffer cannot grow with the number
// of frames.
//
//verif:harness prop=C13 unwind=64 timeout=300
func VerifH_C13_carry() {
	sc := vNewServerConn()
	sc.maxHeaderList = 32
	strm := &Stream{id: 1, state: StreamStateOpen, window: 65535}
	strm.ctx = &fasthttp.RequestCtx{}
	// the buffered start of a literal field whose value is declared 127+ bytes long
	p := vRange(0, 14) * 10
	prev := make([]byte, p)
	if p > 0 {
		prev[0] = 0x00 // literal without indexing, new name
	}
	if p > 1 {
		prev[1] = 0x01
	}
	if p > 2 {
		prev[2] = 'a'
	}
	if p > 3 {
		prev[3] = 0x7f // value length 127 + continuation: never satisfied here
	}
	if p > 4 {
		prev[4] = 0x7f
	}
	strm.previousHeaderBytes = prev
	n := vRange(0, 12)
	frag := vBytes(n)
	if p <= 4 {
		// make the fragment continue the same unfinished field
		full := []byte{0x00, 0x01, 'a', 0x7f, 0x7f}
		for i := 0; i < n && p+i < 5; i++ {
			vAssume(frag[i] == full[p+i])
		}
	}
	fr := AcquireFrameHeader()
	c := AcquireFrame(FrameContinuation).(*Continuation)
	c.SetHeader(frag)
	fr.SetBody(c)
	fr.SetStream(1)
	fr.kind = FrameContinuation

	err := sc.handleHeaderFrame(strm, fr)

	if err == nil {
		vAssert(len(strm.previousHeaderBytes) <= 4*sc.maxHeaderList, "C13.carry.buffer-within-header-list-limit")
	} else {
		e, ok := err.(Error)
		vAssert(ok && e.frameType == FrameGoAway, "C13.carry.connection-error")
	}
	vCover("C13.carry.grows", err == nil && len(strm.previousHeaderBytes) == p+n && p+n > 20)
	vCover("C13.carry.refused", err != nil && p+n > 128)
}

// The header-list limit counts the whole request: a request whose header
// block carries a field x-a of 0..40 bytes and whose trailers carry a field
// x-b of 0..40 bytes, with MaxHeaderListSize 200 (the three pseudo-headers
// take 125 of it), reaches the handler only when everything together is
// within the limit.
//
//verif:harness prop=C13 unwind=200 timeout=600
func VerifH_C13_hdrlist() {
	s := vStartServer(8)
	s.sc.maxHeaderList = 200
	la, lb := vRange(0, 4)*10, vRange(0, 4)*10
	field := func(name byte, n int) []byte {
		b := []byte{0x00, 0x03, 'x', '-', name, byte(n)}
		for i := 0; i < n; i++ {
			b = append(b, 'v')
		}
		return b
	}
	total := 42 + 44 + 39 + (35 + la) + (35 + lb)
	s.send(vFrame(0x1, 0x4, 1, append(vBlock(true, '1'), field('a', la)...)))
	s.send(vFrame(0x0, 0x0, 1, []byte("d")))
	s.send(vFrame(0x1, 0x5, 1, field('b', lb)))
	s.replies()
	if len(s.handled) > 0 {
		vAssert(total <= 200, "C13.hdrlist.handler-never-sees-more-than-max-header-list-size")
	}
	if total <= 200 {
		vAssert(len(s.handled) == 1, "C13.hdrlist.within-limit-is-served")
	}
	vCover("C13.hdrlist.over-by-trailers", total > 200 && 125+35+la <= 200)
}

// The same for a header block that is decoded without a stream to deliver it
// to (a refused stream, trailers after the server's reset): one CONTINUATION
// frame of 0..12 bytes on top of 0..140 buffered bytes of an unfinished field,
// MaxHeaderListSize 32: what is kept stays within four times the limit, or the
// connection is ended with ENHANCE_YOUR_CALM.
//
//verif:harness prop=C13 unwind=64 timeout=300
func VerifH_C13_discard() {
	sc := vNewServerConn()
	sc.maxHeaderList = 32
	p := vRange(0, 14) * 10
	prev := make([]byte, p)
	full := []byte{0x00, 0x01, 'a', 0x7f, 0x7f}
	for i := 0; i < p && i < 5; i++ {
		prev[i] = full[i]
	}
	blk := &discardedBlock{stream: 3, pending: prev, fields: 1}
	n := vRange(0, 12)
	frag := vBytes(n)
	if p <= 4 {
		for i := 0; i < n && p+i < 5; i++ {
			vAssume(frag[i] == full[p+i])
		}
	}
	fr := AcquireFrameHeader()
	c := AcquireFrame(FrameContinuation).(*Continuation)
	c.SetHeader(frag)
	fr.SetBody(c)
	fr.SetStream(3)
	fr.kind = FrameContinuation

	err := sc.discardHeaderBlock(fr, blk)

	if err == nil {
		vAssert(len(blk.pending) <= 4*sc.maxHeaderList, "C13.discard.buffer-within-header-list-limit")
	}
	vCover("C13.discard.refused", err != nil && p == 140)
	vCover("C13.discard.kept", err == nil && len(blk.pending) > 0)
}
