package http2

import "fmt"

// Reference for what a sequence of frames on one response stream amounts to
// (RFC 7540 8.1): a header block with :status (HEADERS, optionally continued),
// then DATA frames, ended by END_STREAM on the HEADERS or on a DATA frame.
const (
	crAwait  = 0 // nothing received yet
	crBlock  = 1 // a header block is open: only CONTINUATION may follow, on this stream
	crBody   = 2 // headers complete, body frames may follow
	crDone   = 3 // the response is complete and well-formed
	crFailed = 4 // reset, or malformed: must not be reported as a success
)

type refResp struct {
	st        int
	endOnHdrs bool
	body      string
}

type refClient struct {
	s     [2]refResp
	block int  // index of the stream whose header block is open, or -1
	dead  bool // a connection error has happened: nothing after it counts
}

const (
	ckHeaders = iota // complete block, :status 200
	ckHeadersEnd     // complete block with END_STREAM
	ckHeadersOpen    // first part of the block, no END_HEADERS
	ckHeadersOpenEnd // first part, END_STREAM, no END_HEADERS
	ckCont           // rest of the block, END_HEADERS
	ckData
	ckDataEnd
	ckRst
	ckWU
	ckPrio
	ckPush
	ckPing0
	ckSettings0
	ckSettingsAck0
	ckGoAway0
	ckWU0
	ckUnknown
	ckDataOther // DATA on a stream the client never opened
	ckInterim   // a complete 1xx header block (:status 100), no END_STREAM
	ckTrailers  // HEADERS with END_STREAM carrying one regular field
	ckInterimEnd // a 1xx block with END_STREAM: an interim response cannot end the stream (8.1)
	ckStatus4    // a complete block with END_STREAM whose :status is "0200": not a three-digit code
	ckCount
)

func (c *refClient) step(k int, i int, arg uint32) {
	// dead: the client may have given the connection up (then every request
	// fails, which is fine), so delivery is no longer demanded. The streams are
	// tracked all the same: a success must always be backed by a complete
	// response.
	if c.block >= 0 && !(k == ckCont && c.block == i) {
		c.dead = true // RFC 7540 6.10: anything else inside a header block
	}
	s := &c.s[i]
	switch k {
	case ckPing0, ckSettings0, ckSettingsAck0, ckUnknown, ckPrio:
		return
	case ckWU0:
		if arg == 0 || arg > 1<<31-1-(1<<20) {
			c.dead = true // zero increment, or the connection window above 2^31-1
		}
		return
	case ckDataOther:
		return // nobody is waiting for that stream
	case ckGoAway0, ckPush:
		// GOAWAY: what it does to the requests is C11's subject; PUSH_PROMISE
		// is a connection error with push disabled.
		c.dead = true
		return
	case ckWU:
		// an increment of 0 is a stream error the client is entitled to raise
		// (RFC 7540 6.9); no property here obliges it to, so either way is fine
		return
	case ckRst:
		s.fail()
		if arg == uint32(FlowControlError) {
			// the client takes the server's FLOW_CONTROL_ERROR as a sign that
			// its own accounting is off and gives the connection up: allowed,
			// every request still ends
			c.dead = true
		}
		return
	case ckCont:
		if c.block != i {
			c.dead = true
			return
		}
		c.block = -1
		if s.st == crBlock {
			s.st = crBody
			if s.endOnHdrs {
				s.st = crDone
			}
		}
		return
	}
	switch s.st {
	case crAwait:
		switch k {
		case ckInterim:
			// any number of 1xx blocks may come before the final one (8.1)
		case ckHeaders:
			s.st = crBody
		case ckHeadersEnd:
			s.st = crDone
		case ckHeadersOpen, ckHeadersOpenEnd:
			s.st, s.endOnHdrs, c.block = crBlock, k == ckHeadersOpenEnd, i
		default:
			s.fail() // DATA before the headers
		}
	case crBody:
		switch k {
		case ckData:
			s.body += "d"
		case ckDataEnd:
			s.body += "e"
			s.st = crDone
		case ckTrailers:
			s.st = crDone
		case ckHeadersOpen, ckHeadersOpenEnd:
			// a second block with :status: malformed, and it is still a block
			s.fail()
			c.block = i
		default:
			s.fail() // a second block with :status
		}
	case crDone, crFailed:
		if k == ckHeadersOpen || k == ckHeadersOpenEnd {
			c.block = i
		}
	}
}

func (s *refResp) fail() {
	if s.st != crDone {
		s.st = crFailed
	}
}

func vClientFrame(k int, id uint32, raw uint32) []byte {
	blk := vRespBlock(false, byte('0'+id))
	arg := raw & (1<<31 - 1)
	be := []byte{byte(raw >> 24), byte(raw >> 16), byte(raw >> 8), byte(raw)}
	switch k {
	case ckHeaders:
		return vFrame(0x1, 0x4, id, blk)
	case ckHeadersEnd:
		return vFrame(0x1, 0x5, id, blk)
	case ckHeadersOpen:
		return vFrame(0x1, 0x0, id, blk[:3])
	case ckHeadersOpenEnd:
		return vFrame(0x1, 0x1, id, blk[:3])
	case ckCont:
		return vFrame(0x9, 0x4, id, blk[3:])
	case ckData:
		return vFrame(0x0, 0x0, id, []byte("d"))
	case ckDataEnd:
		return vFrame(0x0, 0x1, id, []byte("e"))
	case ckRst:
		return vFrame(0x3, vU8(), id, be)
	case ckWU:
		return vFrame(0x8, vU8(), id, be)
	case ckPrio:
		return vFrame(0x2, vU8(), id, append(be, vU8()))
	case ckPush:
		return vFrame(0x5, 0x4, id, []byte{0, 0, 0, 2, 0x82})
	case ckPing0:
		return vFrame(0x6, 0x0, 0, []byte{1, 2, 3, 4, 5, 6, 7, 8})
	case ckSettings0:
		return vFrame(0x4, 0x0, 0, nil)
	case ckSettingsAck0:
		return vFrame(0x4, 0x1, 0, nil)
	case ckGoAway0:
		return vFrame(0x7, 0x0, 0, []byte{0, 0, 0, byte(arg & 3), 0, 0, 0, byte(raw >> 8)})
	case ckWU0:
		return vFrame(0x8, vU8(), 0, be)
	case ckUnknown:
		return vFrame(0x20, vU8(), id, be)
	case ckInterim:
		return vFrame(0x1, 0x4, id, []byte{0x08, 0x03, '1', '0', '0'})
	case ckInterimEnd:
		return vFrame(0x1, 0x5, id, []byte{0x08, 0x03, '1', '0', '0'})
	case ckStatus4:
		return vFrame(0x1, 0x5, id, []byte{0x08, 0x04, '0', '2', '0', '0'})
	case ckTrailers:
		return vFrame(0x1, 0x5, id, []byte{0x00, 0x03, 'x', '-', 'z', 0x01, 'z'})
	default:
		return vFrame(0x0, 0x0, 5, []byte("zz"))
	}
}

// Two requests are in flight on streams 1 and 3. The server then sends every
// sequence of 2 (quick) / 3 (thorough) frames drawn from twenty-two kinds
// (HEADERS whole or opened, with or without END_STREAM, CONTINUATION, DATA
// with and without END_STREAM, RST_STREAM with any code, WINDOW_UPDATE with
// any increment, PRIORITY, PUSH_PROMISE, PING, SETTINGS, SETTINGS ACK, GOAWAY,
// connection WINDOW_UPDATE, an unknown frame type, DATA on a stream that was
// never opened, a 1xx block, a trailer block; arbitrary flag bits where the
// type defines none) on either
// stream, and hangs up. No task traps; every request ends exactly once; a
// request is reported successful only if the frames on its stream were a
// complete, well-formed response, and then with that response's status and
// its own DATA octets; both loops exit.
//
//verif:harness prop=C12,C02,C20 unwind=200 timeout=900 timeoutT=5000 maxstates=3000000
func VerifH_C12_seq() {
	cl := vStartClient()
	calls := [2]*vCall{cl.request("GET", "/a", nil), cl.request("POST", "/b", []byte("body"))}
	cl.sent()
	ref := &refClient{block: -1}
	n := vPick(2, 3)
	for j := 0; j < n; j++ {
		k := vRange(0, ckCount-1)
		i := vRange(0, 1)
		raw := vU32()
		ref.step(k, i, raw&(1<<31-1))
		cl.feed(vClientFrame(k, uint32(1+2*i), raw))
	}
	close(cl.conn.in)
	vSettle()
	for i, c := range calls {
		done, err := c.outcome()
		vNote(fmt.Sprintf("stream %d: done=%v err=%v ref=%d dead=%v", 1+2*i, done, err, ref.s[i].st, ref.dead))
		vAssert(done, "C12.seq.every-request-ends")
		again, _ := c.outcome()
		vAssert(!again, "C12.seq.exactly-once")
		if done && err == nil && ref.dead {
			// the server broke a connection-level rule somewhere: what a client
			// that carried on makes of the rest is not pinned down
			continue
		}
		if done && err == nil {
			vAssert(ref.s[i].st == crDone, "C12.seq.success-only-for-a-complete-well-formed-response")
			vAssert(c.res.StatusCode() == 200, "C12.seq.status")
			vAssert(string(c.res.Header.Peek("x-t")) == string([]byte{byte('1' + 2*i)}), "C12.seq.own-header-field")
			vAssert(string(c.res.Body()) == ref.s[i].body, "C12.seq.own-body")
		}
		if ref.s[i].st == crDone && !ref.dead {
			vAssert(done && err == nil, "C12.seq.complete-response-is-delivered")
		}
	}
	vAssert(vLiveTasks() == 0, "C12.seq.loops-exit")
	vCover("C12.seq.both", ref.s[0].st == crDone && ref.s[1].st == crDone && !ref.dead)
	vCover("C12.seq.continued", ref.s[0].st == crDone && ref.s[0].endOnHdrs)
}
