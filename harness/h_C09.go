package http2

import "fmt"

// C09 — a stream-level error never disturbs other streams or the compression
// context.

func vReqBlock(digit byte, extra ...byte) []byte {
	return append(vBlock(false, digit), extra...)
}

var (
	vInsertKV     = []byte{0x40, 0x01, 'k', 0x01, 'v'} // literal with incremental indexing: k: v
	vRefKV        = []byte{0xbe}                       // indexed field 62: the entry above
	vInsertMN     = []byte{0x40, 0x01, 'm', 0x01, 'n'} // a later insertion: m: n
	vRefKVAfterMN = []byte{0xbf}                       // k: v is index 63 once m: n has been inserted
)

// vOffence returns a header-block fragment that makes a request malformed
// (RFC 7540 8.1.2) without being an HPACK error.
func vOffence(which int) []byte {
	switch which {
	case 0:
		return []byte{0x00, 0x01, 'X', 0x01, '1'} // upper-case name
	case 1:
		return []byte{0x00, 0x0a, 'c', 'o', 'n', 'n', 'e', 'c', 't', 'i', 'o', 'n', 0x01, 'x'} // connection-specific
	case 2:
		return []byte{0x00, 0x01, 'a', 0x01, 'b', 0x82} // pseudo-header after a regular field
	case 3:
		return []byte{0x82} // second :method
	case 4:
		return []byte{0x00, 0x02, 't', 'e', 0x01, 'x'} // TE other than trailers
	default:
		return []byte{0x0f, 0x0d, 0x08, '9', '9', '9', '9', '9', '9', '9', '9'} // content-length far over MaxRequestBodySize
	}
}

// Three requests on streams 1, 3 and 5. Stream 3 fails for a stream-scoped
// reason chosen from a catalogue - a malformed or over-limit header list (six kinds, with
// the offending field before or after a field that is added to the dynamic
// table), refusal because MaxConcurrentStreams is reached, a body over
// MaxRequestBodySize with DATA still in flight after the server's RST_STREAM,
// cancellation by the peer while the handler runs, a stream window overflow,
// DATA after the peer's own END_STREAM -
// and its header block adds a dynamic-table entry that stream 5 then
// references. Streams 1 and 5 must be served exactly once each, stream 3 must
// fail alone, and the connection must stay up.
//
//verif:harness prop=C09,C08 unwind=64 timeout=600
func VerifH_C09_isolate() {
	scenario := vRange(0, 5)
	max := uint32(8)
	if scenario == 1 {
		max = 1
	}
	s := vStartServer(max)
	var all []*FrameHeader
	ref := vRefKV // how stream 5 refers to the entry k: v
	get := func() *vReaction {
		fr := s.replies()
		all = append(all, fr...)
		return vClassify(fr)
	}

	switch scenario {
	case 0: // malformed header list on stream 3
		which := vRange(0, 5)
		before := vBool()
		s.send(vFrame(0x1, 0x5, 1, vReqBlock('1')))
		get()
		var blk []byte
		if before {
			blk = vReqBlock('3', append(append([]byte(nil), vOffence(which)...), vInsertKV...)...)
		} else {
			blk = vReqBlock('3', append(append([]byte(nil), vInsertKV...), vOffence(which)...)...)
		}
		s.send(vFrame(0x1, 0x5, 3, blk))
		r := get()
		vNote(fmt.Sprintf("malformed which=%d before=%v: goaway=%v/%d rst=%v", which, before, r.goaway, r.goawayCode, r.rst))
		vAssert(!r.goaway, "C09.isolate.malformed-is-a-stream-error")
		vAssert(r.rst[3] == ProtocolError || (which == 5 && r.rst[3] == EnhanceYourCalm) || r.headers[3] == 1, "C09.isolate.malformed-refused")
	case 1: // refused: the only slot is taken by a running handler
		s.hold = true
		s.send(vFrame(0x1, 0x5, 1, vReqBlock('1')))
		get()
		blk3 := append(vBlock(true, '3'), vInsertKV...)
		// the refused request's header block may be split at any byte
		if cut := vRange(0, len(blk3)); cut == len(blk3) {
			s.send(vFrame(0x1, 0x4, 3, blk3))
		} else {
			s.send(vFrame(0x1, 0x0, 3, blk3[:cut]))
			s.send(vFrame(0x9, 0x4, 3, blk3[cut:]))
		}
		r := get()
		vAssert(!r.goaway && r.rst[3] == RefusedStreamError, "C09.isolate.refused-stream")
		// what the peer had already sent on it before it saw the refusal: the
		// body, a WINDOW_UPDATE, its own cancellation, or a PRIORITY frame
		late := vRange(0, 4)
		sent := 0
		// the slot may have become free in the meantime
		freed := vBool()
		if freed {
			s.hold = false
			s.gate <- struct{}{}
			vSettle()
			get()
		}
		switch late {
		case 0:
			// (padded: the whole frame counts against the connection window)
			s.send(vFrame(0x0, 0x9, 3, []byte{2, 'l', 'a', 't', 'e', 0, 0}))
			sent = 7
		case 1:
			s.send(vFrame(0x8, 0x0, 3, []byte{0, 0, 0, 9}))
		case 2:
			s.send(vFrame(0x3, 0x0, 3, []byte{0, 0, 0, 8}))
		case 3:
			s.send(vFrame(0x2, 0x0, 3, []byte{0, 0, 0, 1, 7}))
		default:
			// trailers, with a field that goes into the dynamic table
			s.send(vFrame(0x1, 0x5, 3, vInsertMN))
			ref = vRefKVAfterMN
		}
		r = get()
		vNote(fmt.Sprintf("late frame %d on refused stream: goaway=%v/%d rst=%v", late, r.goaway, r.goawayCode, r.rst))
		vAssert(!r.goaway, "C09.isolate.frames-in-flight-for-a-refused-stream-are-not-a-connection-error")
		inc, _ := vWindowUpdates(all, 0, "C09.isolate.conn")
		vAssert(int64(1<<22)-int64(sent)+inc == int64(s.sc.currentWindow), "C09.isolate.refused-data-is-accounted-to-the-connection-window")
		if !freed {
			s.hold = false
			s.gate <- struct{}{}
			vSettle()
			get()
		}
	case 2: // body too large, DATA in flight after our RST_STREAM
		s.sc.maxRequestBodySize = 4
		s.send(vFrame(0x1, 0x5, 1, vReqBlock('1')))
		get()
		blk := append(vBlock(true, '3'), vInsertKV...)
		s.send(vFrame(0x1, 0x4, 3, blk))
		get()
		s.send(vFrame(0x0, 0x0, 3, []byte("12345")))
		r := get()
		vAssert(!r.goaway && r.rst[3] == EnhanceYourCalm, "C09.isolate.body-too-large-is-a-stream-error")
		// sent before the peer saw our RST_STREAM: the rest of the body, or the trailers
		more := 0
		if vBool() {
			s.send(vFrame(0x0, 0x9, 3, []byte{3, '6', 0, 0, 0}))
			more = 5
		} else {
			s.send(vFrame(0x1, 0x5, 3, vInsertMN))
			ref = vRefKVAfterMN
		}
		r = get()
		vNote(fmt.Sprintf("late frame (more=%d): goaway=%v/%d rst=%v", more, r.goaway, r.goawayCode, r.rst))
		vAssert(!r.goaway, "C09.isolate.frames-after-our-reset-are-not-a-connection-error")
		inc, _ := vWindowUpdates(all, 0, "C09.isolate.conn")
		vAssert(int64(1<<22)-5-int64(more)+inc == int64(s.sc.currentWindow), "C09.isolate.discarded-data-is-accounted-to-the-connection-window")
	case 3: // cancelled by the peer while its handler runs
		s.hold = true
		s.send(vFrame(0x1, 0x5, 3, vReqBlock('3', vInsertKV...)))
		get()
		s.send(vFrame(0x3, 0x0, 3, []byte{0, 0, 0, 8}))
		r := get()
		vAssert(!r.goaway, "C09.isolate.cancel-is-not-an-error")
		s.hold = false
		s.gate <- struct{}{}
		vSettle()
		r = get()
		vAssert(r.headers[3] == 0, "C09.isolate.no-response-on-a-cancelled-stream")
	case 5: // DATA after the peer's own END_STREAM, the handlers still running (5.1: a stream error)
		s.hold = true
		s.send(vFrame(0x1, 0x5, 1, vReqBlock('1')))
		get()
		s.send(vFrame(0x1, 0x5, 3, vReqBlock('3', vInsertKV...)))
		get()
		s.send(vFrame(0x0, 0x1, 3, []byte("more")))
		r := get()
		vAssert(!r.goaway && r.rst[3] == StreamClosedError, "C09.isolate.data-after-end-stream-is-a-stream-error")
		inc, _ := vWindowUpdates(all, 0, "C09.isolate.conn")
		vAssert(int64(1<<22)-4+inc == int64(s.sc.currentWindow), "C09.isolate.its-octets-are-accounted-to-the-connection-window")
		s.hold = false
		s.gate <- struct{}{}
		s.gate <- struct{}{}
		vSettle()
		r = get()
		vAssert(r.headers[3] == 0, "C09.isolate.no-response-on-the-reset-stream")
	default: // stream window overflow
		s.send(vFrame(0x1, 0x5, 1, vReqBlock('1')))
		get()
		s.send(vFrame(0x1, 0x4, 3, append(vBlock(true, '3'), vInsertKV...)))
		get()
		s.send(vFrame(0x8, 0x0, 3, []byte{0x7f, 0xff, 0xff, 0xff}))
		r := get()
		vAssert(!r.goaway && r.rst[3] == FlowControlError, "C09.isolate.window-overflow-is-a-stream-error")
	}

	// a later request that relies on the dynamic-table entry of stream 3's block
	s.send(vFrame(0x1, 0x5, 5, vReqBlock('5', ref...)))
	r := get()
	vNote(fmt.Sprintf("scenario %d later request: goaway=%v/%d rst=%v headers=%v handled=%v", scenario, r.goaway, r.goawayCode, r.rst, r.headers, s.handled))
	tag := [6]string{"malformed", "refused", "reset-by-us", "cancelled", "window-overflow", "data-after-end-stream"}[scenario]
	vAssert(!r.goaway, "C09.isolate.connection-stays-up-after-"+tag)
	vAssert(len(r.rst) == 0 && r.headers[5] == 1 && r.endStream[5] == 1, "C09.isolate.later-request-served-after-"+tag)
	total := vClassify(all)
	if scenario != 3 {
		vAssert(total.headers[1] == 1 && total.endStream[1] == 1, "C09.isolate.bystander-served-once")
	}
	n5 := 0
	for _, p := range s.handled {
		if p == "/5" {
			n5++
		}
	}
	vAssert(n5 == 1, "C09.isolate.later-request-dispatched-once")
	vPoolsSane("C09.isolate")
	vCover("C09.isolate.done", n5 == 1)
}
