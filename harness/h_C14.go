package http2

import (
	"github.com/valyala/fasthttp"
)

// C14 — receivers hand flow-control credit back so a conforming sender never
// starves.

// vWindowUpdates sums the WINDOW_UPDATE increments queued for stream id (0 =
// connection) and checks that none is zero or above 2^31-1.
func vWindowUpdates(frames []*FrameHeader, id uint32, tag string) (total int64, count int) {
	for _, fr := range frames {
		if wu, ok := fr.Body().(*WindowUpdate); ok && fr.Stream() == id {
			inc := int64(wu.Increment())
			vAssert(inc > 0, tag+".increment-not-zero")
			vAssert(inc <= 1<<31-1, tag+".increment-fits")
			total += inc
			count++
		}
	}
	return total, count
}

// vDataFrame builds a DATA frame as the read loop delivers it: length is the
// frame length including padding, data the payload without it.
func vDataFrame(id uint32, length int, data []byte, endStream bool) *FrameHeader {
	fr := AcquireFrameHeader()
	fr.SetStream(id)
	d := AcquireFrame(FrameData).(*Data)
	d.b = data
	d.endStream = endStream
	fr.SetBody(d)
	fr.kind = FrameData
	fr.length = length
	if endStream {
		fr.flags = fr.flags.Add(FlagEndStream)
	}
	if length > len(data) {
		fr.flags = fr.flags.Add(FlagPadded)
	}
	return fr
}

// One DATA frame arriving at the server on an open stream, within the
// windows the server has advertised: arbitrary frame length 0..16384 (data
// plus padding), arbitrary split between data and padding, END_STREAM or
// not, arbitrary receive-window state (0 < currentWindow <= maxWindow = 4 MiB),
// arbitrary body received so far, MaxRequestBodySize 1 MiB. Whatever the
// server answers (accept, or a stream error because the body is too large),
// the peer's view of the connection window and the server's own stay equal,
// the connection window never reaches zero, the stream gets its bytes back
// unless it just ended, no increment is 0 and no window passes 2^31-1.
//
//verif:harness prop=C14,C13,C09 unwind=8 timeout=300 use=vStubReqAppendBodyCount
func VerifH_C14_server() {
	sc := vNewServerConn()
	strm := &Stream{id: 1, state: StreamStateOpen, headersFinished: true, window: 65535}
	strm.ctx = &fasthttp.RequestCtx{}
	cur := int32(vU32())
	vAssume(cur > 0 && cur <= sc.maxWindow)
	sc.currentWindow = cur
	recv := vInt()
	vAssume(recv >= 0 && recv <= sc.maxRequestBodySize)
	strm.recvBody = recv
	// whether the request declared a content-length (within the limit, or it
	// would have been refused at the headers) makes no difference to the limit
	strm.hasContentLength = vBool()
	strm.contentLength = vInt()
	vAssume(strm.contentLength >= 0 && strm.contentLength <= sc.maxRequestBodySize)
	length := vInt()
	vAssume(length >= 0 && length <= 16384 && int32(length) <= cur)
	dlen := vInt()
	vAssume(dlen >= 0 && dlen <= length && (dlen == length || dlen < length-0))
	end := vBool()
	fr := vDataFrame(1, length, vAbstractBytes(dlen), end)

	err := sc.handleFrame(strm, fr)

	frames := vDrainWriter(sc)
	connInc, _ := vWindowUpdates(frames, 0, "C14.server.conn")
	strmInc, _ := vWindowUpdates(frames, 1, "C14.server.stream")
	peerConn := int64(cur) - int64(length) + connInc // what the peer may still send on the connection
	vAssert(peerConn == int64(sc.currentWindow), "C14.server.conn-ledger-in-step")
	vAssert(sc.currentWindow > 0 && sc.currentWindow <= sc.maxWindow, "C14.server.conn-window-stays-open")
	vAssert(peerConn <= 1<<31-1, "C14.server.conn-window-fits")
	if err == nil {
		vAssert(recv+dlen <= sc.maxRequestBodySize, "C14.server.body-limit")
		if !end {
			vAssert(strmInc == int64(length), "C14.server.stream-credit-returned")
		}
	} else {
		e, ok := err.(Error)
		vAssert(ok && e.frameType == FrameResetStream, "C14.server.only-a-stream-error")
	}
	vCover("C14.server.refill", connInc > 0)
	vCover("C14.server.too-large", err != nil)
	vCover("C14.server.padded", err == nil && dlen < length && !end)
}

// vNewConn builds a client connection's state without sockets or goroutines.
func vNewConn() *Conn {
	c := &Conn{
		enc:           &HPACK{},
		dec:           &HPACK{},
		nextID:        1,
		maxWindow:     1 << 20,
		currentWindow: 1 << 20,
		connWindow:    int32(defaultWindowSize),
		streamWindow:  int32(defaultWindowSize),
		maxStreams:    defaultConcurrentStreams,
		maxFrameSize:  defaultDataFrameSize,
		pending:       make(map[uint32]*pendingBody),
		reqQueued:     make(map[uint32]*Ctx),
		winCh:         make(chan struct{}, 1),
		in:            make(chan *Ctx, 128),
		out:           make(chan *FrameHeader, 128),
		done:          make(chan struct{}),
	}
	c.enc.Reset()
	c.dec.Reset()
	c.serverS.Reset() // as after a handshake in which the server's SETTINGS frame was empty
	c.enc.DisableCompression = true
	c.current.SetMaxWindowSize(1 << 20)
	return c
}

func vDrainOut(c *Conn) []*FrameHeader {
	var out []*FrameHeader
	for {
		select {
		case fr := <-c.out:
			out = append(out, fr)
		default:
			return out
		}
	}
}

// One DATA frame arriving at the client, for a stream a request is waiting on
// or for one nobody waits on any more (cancelled, timed out): arbitrary frame
// length 0..16384, arbitrary data/padding split, END_STREAM or not, arbitrary
// receive-window state (0 < currentWindow <= maxWindow = 1 MiB). The peer's
// view of the connection window and the client's stay equal, the connection
// window never reaches zero, a stream that goes on gets its bytes back, no
// increment is 0 and no window passes 2^31-1.
//
//verif:harness prop=C14 unwind=8 timeout=300 use=vStubRespAppendBodyCount
func VerifH_C14_client() {
	c := vNewConn()
	cur := int32(vU32())
	vAssume(cur > 0 && cur <= c.maxWindow)
	c.currentWindow = cur
	length := vInt()
	vAssume(length >= 0 && length <= 16384 && int32(length) <= cur)
	dlen := vInt()
	vAssume(dlen >= 0 && dlen <= length)
	end := vBool()
	waiting := vBool()
	// the response's header block has arrived (DATA before it is a stream
	// error: the request fails, only the connection credit is due then)
	headers := vBool()
	res := &fasthttp.Response{}
	ctx := &Ctx{Response: res, Err: make(chan error, 1)}
	if headers {
		ctx.hdrBlocks, ctx.hdrStatus = 1, 200
	}
	if waiting {
		ctx.conn.Store(c)
		ctx.streamID = 3
		c.reqQueued[3] = ctx
		c.openStreams = 1
	}
	fr := vDataFrame(3, length, vAbstractBytes(dlen), end)

	stop := c.dispatch(fr)

	vAssert(!stop, "C14.client.read-loop-goes-on")
	frames := vDrainOut(c)
	connInc, _ := vWindowUpdates(frames, 0, "C14.client.conn")
	strmInc, _ := vWindowUpdates(frames, 3, "C14.client.stream")
	peerConn := int64(cur) - int64(length) + connInc
	vAssert(peerConn == int64(c.currentWindow), "C14.client.conn-ledger-in-step")
	vAssert(c.currentWindow > 0 && c.currentWindow <= c.maxWindow, "C14.client.conn-window-stays-open")
	if waiting && !end && headers {
		vAssert(strmInc == int64(length), "C14.client.stream-credit-returned")
	}
	if waiting && !headers {
		failed := false
		select {
		case err := <-ctx.Err:
			failed = err != nil
		default:
		}
		vAssert(failed, "C14.client.data-before-headers-fails-the-request")
	}
	vCover("C14.client.refill", connInc > 0)
	vCover("C14.client.padding-only", waiting && headers && !end && dlen == 0 && length > 0)
	vCover("C14.client.nobody-waiting", !waiting && length > 0)
}
