package http2

import "errors"

// C03 — the HPACK decoder yields exactly what RFC 7541 defines.

// readInt against the RFC 7541 5.1 reference, for every prefix size and every
// input of up to 12 bytes, at full 64-bit width.
//
//verif:harness prop=C03 unwind=16
func VerifH_C03_int() {
	n := vRange(1, 8)
	b := vBytes(vRange(0, 12))
	lo, hi, used, st := refReadInt(uint(n), b)
	rest, v, err := readInt(n, b)
	if err == nil {
		vAssert(st == refOK, "C03.int.accepts-truncated")
		vAssert(hi == 0 && v == lo, "C03.int.value")
		vAssert(len(rest) == len(b)-used, "C03.int.consumed")
	} else {
		if st == refNeedMore && len(b) <= 10 {
			vAssert(errors.Is(err, ErrUnexpectedSize), "C03.int.truncated-error-kind")
		}
		// a complete integer may only be refused when it cannot be represented
		// (or is absurdly over-long: more than 9 continuation bytes)
		vAssert(st != refOK || hi != 0 || used > 10, "C03.int.rejects-valid")
	}
	vCover("C03.int.multibyte", err == nil && used == 3)
	vCover("C03.int.big", err == nil && v > 1<<62)
	vCover("C03.int.overflow-rejected", err != nil && st == refOK && hi != 0)
}
