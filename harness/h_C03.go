package http2

import "errors"

// C03 — the HPACK decoder yields exactly what RFC 7541 defines.

// readInt against the RFC 7541 5.1 reference, for every prefix size and every
// input of up to 12 bytes, at full 64-bit width.
//
//verif:harness prop=C03 unwind=16
func VerifH_C03_int() {
	n := vRange(1, 8)
	b := vBytes(vRange(0, 12))
	lo, hi, used, st := refReadInt(uint(n), b)
	rest, v, err := readInt(n, b)
	if err == nil {
		vAssert(st == refOK, "C03.int.accepts-truncated")
		vAssert(hi == 0 && v == lo, "C03.int.value")
		vAssert(len(rest) == len(b)-used, "C03.int.consumed")
	} else {
		if st == refNeedMore && len(b) <= 10 {
			vAssert(errors.Is(err, ErrUnexpectedSize), "C03.int.truncated-error-kind")
		}
		// a complete integer may only be refused when it cannot be represented
		// (or is absurdly over-long: more than 9 continuation bytes)
		vAssert(st != refOK || hi != 0 || used > 10, "C03.int.rejects-valid")
	}
	vCover("C03.int.multibyte", err == nil && used == 3)
	vCover("C03.int.big", err == nil && v > 1<<62)
	vCover("C03.int.overflow-rejected", err != nil && st == refOK && hi != 0)
}

// readString against the RFC 7541 5.2 reference for every input of up to 12
// bytes (so every length prefix up to 2^64-1, with at most 11 bytes of string
// data actually present), raw and Huffman-coded (coded part at most 1 byte
// quick / 2 thorough): no trap, same accept/reject, same string, same
// remaining input.
//
//verif:harness prop=C03,C16,C17 unwind=24 timeout=600 timeoutT=3000
func VerifH_C03_str() {
	b := vBytes(vRange(0, 12))
	pre := vBytes(vRange(0, 1))
	if len(b) > 0 && b[0]&0x80 != 0 {
		// Huffman: keep the coded part short (the decoder itself is C15)
		vAssume(b[0]&0x7f <= byte(vPick(1, 2)))
	}
	want, used, st := refReadStr(b)
	rest, dst, err := readString(append([]byte(nil), pre...), b)
	if st == refOK {
		vAssert(err == nil, "C03.str.rejects-valid")
		if err == nil {
			vAssert(len(rest) == len(b)-used, "C03.str.consumed")
			vAssert(len(dst) == len(pre)+len(want), "C03.str.length")
			for i := range pre {
				vAssert(dst[i] == pre[i], "C03.str.prefix-kept")
			}
			vAssert(refBytesEq(dst[len(pre):], want), "C03.str.bytes")
		}
	} else {
		vAssert(err != nil, "C03.str.accepts-invalid")
	}
	vCover("C03.str.huge-length", st == refNeedMore && len(b) == 11 && b[10] == 1)
	vCover("C03.str.raw", st == refOK && len(want) == 5)
	vCover("C03.str.huffman", st == refOK && len(b) > 0 && b[0]&0x80 != 0 && len(want) == 1)
}

// vC03State builds an arbitrary small decoder state and the matching
// reference table: ne dynamic entries with 1-byte names and 0..1-byte values,
// any current maximum that holds them, any advertised limit above it (up to
// 255, or 4096).
func vC03State(ne int) (*HPACK, *refTable) {
	hp := &HPACK{}
	t := &refTable{}
	limit := uint32(vIte64(vBool(), 4096, uint64(vU8())))
	max := uint32(vU8())
	vAssume(max <= limit)
	hp.maxTableSizeSettings, hp.maxTableSize = limit, max
	t.limit, t.max = limit, max
	for i := 0; i < ne; i++ { // oldest first
		k := vBytes(1)
		v := vBytes(vRange(vPick(1, 0), 1))
		hf := &HeaderField{}
		hf.SetBytes(k, v)
		hp.dynamic = append(hp.dynamic, hf)
		t.ents = append([]refField{{name: k, value: v}}, t.ents...)
	}
	vAssume(t.size() <= uint64(max))
	return hp, t
}

// One call of the field decoder on every input of up to 4 (quick) / 7
// (thorough) bytes with an empty dynamic table and arbitrary table limits,
// against the RFC 7541 reference: same accept/reject, same field, same
// remaining bytes, same dynamic table afterwards. Huffman-coded strings are
// excluded here (H bit assumed 0); VerifH_C03_huff covers them.
//
//verif:harness prop=C03 unwind=24 timeout=600 timeoutT=5000
func VerifH_C03_field() {
	hp, t := vC03State(0)
	vC03Field(hp, t, vPick(4, 7))
}

// The same from a decoder state with 1 or 2 dynamic entries, on every input
// of up to 3 (quick) / 4 (thorough) bytes: index arithmetic, insertion,
// eviction, oversized entries, size updates that evict.
//
//verif:harness prop=C03,C01,C02 unwind=24 timeout=600 timeoutT=5000
func VerifH_C03_table() {
	hp, t := vC03State(vRange(1, 2))
	vC03Field(hp, t, vPick(3, 4))
}

// A block that consists of exactly one dynamic table size update whose
// integer takes 1..11 bytes (every value up to 2^64 and beyond), from a decoder
// state with one entry: accepted exactly when the value is within the
// advertised limit, and then the table is resized and evicted like the
// reference's.
//
//verif:harness prop=C03 unwind=24 timeout=300
func VerifH_C03_update() {
	hp, t := vC03State(1)
	n := vRange(1, 11)
	b := vBytes(n)
	vAssume(b[0]&0xe0 == 0x20)
	for i := 1; i < n; i++ {
		vAssume((b[i]&0x80 != 0) == (i < n-1)) // one integer, nothing after it
	}
	vAssume(n == 1 || b[0]&0x1f == 0x1f)
	hf := &HeaderField{}
	_, upd, used, st := refHpackRep(t, true, b)
	rest, field, err := hp.nextField(hf, true, 0, b)
	if st == refOK {
		vAssert(upd && used == n, "C03.update.ref-shape")
		vAssert(err == nil && len(rest) == 0, "C03.update.rejects-valid")
		vAssert(!field, "C03.update.is-not-a-field")
		vAssert(refTableIs(t, hp) && hp.maxTableSize == t.max, "C03.update.table")
	} else {
		vAssert(err != nil, "C03.update.accepts-invalid")
	}
	vCover("C03.update.above-2^32", st == refInvalid && n == 6)
	vCover("C03.update.evicts", st == refOK && len(t.ents) == 0 && n == 1)
}

func vC03Field(hp *HPACK, t *refTable, maxLen int) {
	blockStart := vBool()
	fieldsProcessed := int(vU8() & 1)
	b := vBytes(vRange(0, maxLen))
	hf := &HeaderField{sensible: vBool()}
	hf.SetBytes(vBytes(1), vBytes(1)) // stale content from the previous field

	// reference: size updates (if legal here) followed by one field
	at := blockStart && fieldsProcessed == 0
	pos, st, got, nupd := 0, refOK, false, 0
	var f refField
	for pos < len(b) {
		var upd bool
		var used int
		f, upd, used, st = refHpackRep(t, at, b[pos:])
		if st != refOK {
			break
		}
		pos += used
		if !upd {
			got = true
			break
		}
		nupd++
	}
	vAssume(!vC03SawHuffman(b))
	// quick tier: at most one table size update in front of the field
	vAssume(vTier() > 0 || nupd <= 1)
	if vTier() == 0 && got && f.sidx != 0 {
		// quick tier: references to the static table are explored for ten
		// representative entries (every distinct shape: with/without value,
		// shortest/longest name); the thorough tier takes all 61
		vAssume(vC03QuickStatic(f.sidx))
	}

	rest, field, err := hp.nextField(hf, blockStart, fieldsProcessed, b)
	switch {
	case st == refOK:
		vAssert(err == nil, "C03.field.rejects-valid")
		if err == nil {
			vAssert(len(rest) == len(b)-pos, "C03.field.consumed")
			vAssert(field == got, "C03.field.says-whether-there-was-a-field")
			if got {
				vAssert(refFieldIs(&f, hf.key, hf.value), "C03.field.name-value")
				vAssert(hf.sensible == f.never, "C03.field.never-indexed-flag")
			}
			vAssert(refTableIs(t, hp), "C03.field.table")
			vAssert(hp.maxTableSize == t.max, "C03.field.table-max")
		}
	default:
		vAssert(err != nil, "C03.field.accepts-invalid")
	}
	vCover("C03.field.indexed-static", st == refOK && got && f.whole && f.sidx != 0)
	vCover("C03.field.literal-indexed", st == refOK && got && !f.whole && len(b) > 0 && b[0] == 0x40)
	vCover("C03.field.update", st == refOK && pos > 0 && len(b) > 0 && b[0]&0xe0 == 0x20)
	vCover("C03.field.invalid", st == refInvalid)
}

// vC03SawHuffman reports whether any string literal that the reference would
// read in b has its H bit set. It mirrors the structure walk of refHpackRep
// without decoding.
func vC03SawHuffman(b []byte) bool {
	pos := 0
	for pos < len(b) {
		c := b[pos]
		switch {
		case c&0x80 != 0:
			return false
		case c&0xe0 == 0x20:
			_, _, u, st := refReadInt(5, b[pos:])
			if st != refOK {
				return false
			}
			pos += u
			continue
		}
		var n uint = 4
		if c&0xc0 == 0x40 {
			n = 6
		}
		lo, _, u, st := refReadInt(n, b[pos:])
		if st != refOK {
			return false
		}
		pos += u
		strs := 1
		if lo == 0 {
			strs = 2
		}
		for k := 0; k < strs; k++ {
			if pos >= len(b) {
				return false
			}
			if b[pos]&0x80 != 0 {
				return true
			}
			_, used, st := refReadStr(b[pos:])
			if st != refOK {
				return false
			}
			pos += used
		}
		return false
	}
	return false
}

func vC03QuickStatic(i uint64) bool {
	r := false
	for _, k := range [10]uint64{1, 2, 4, 5, 8, 16, 23, 32, 58, 61} {
		r = vOr(r, i == k)
	}
	return r
}
