package http2

// Models of library functions, written in Go and executed by the same engine
// in place of the originals (errors.Is and errors.As use reflection).

//verif:replace errors.Is
func vStubErrorsIs(err, target error) bool {
	if err == nil || target == nil {
		return err == target
	}
	for {
		if err == target {
			return true
		}
		if x, ok := err.(interface{ Is(error) bool }); ok && x.Is(target) {
			return true
		}
		u, ok := err.(interface{ Unwrap() error })
		if !ok {
			return false
		}
		err = u.Unwrap()
		if err == nil {
			return false
		}
	}
}

// errors.As is only ever called with a *Error target in this package.
//
//verif:replace errors.As
func vStubErrorsAs(err error, target any) bool {
	tp, ok := target.(*Error)
	if !ok {
		vUnsupported("errors.As with a target other than *Error")
	}
	for err != nil {
		if e, ok := err.(Error); ok {
			*tp = e
			return true
		}
		if x, ok := err.(interface{ As(any) bool }); ok && x.As(target) {
			return true
		}
		u, ok := err.(interface{ Unwrap() error })
		if !ok {
			return false
		}
		err = u.Unwrap()
	}
	return false
}

// fastrand chooses the padding length. The executor explores the smallest
// three values (and, in the thorough tier, the largest one) instead of all.
//
//verif:replace github.com/valyala/fastrand.Uint32n
func vStubFastrandUint32n(n uint32) uint32 {
	v := vEnv32()
	vAssume(v < n)
	vAssume(v < 3 || (vTier() > 0 && v == n-1))
	return v
}
