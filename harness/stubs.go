package http2

import (
	"bufio"

	"github.com/valyala/fasthttp"
)

// Models of library functions, written in Go and executed by the same engine
// in place of the originals (errors.Is and errors.As use reflection).

//verif:replace errors.Is
func vStubErrorsIs(err, target error) bool {
	if err == nil || target == nil {
		return err == target
	}
	for {
		if err == target {
			return true
		}
		if x, ok := err.(interface{ Is(error) bool }); ok && x.Is(target) {
			return true
		}
		u, ok := err.(interface{ Unwrap() error })
		if !ok {
			return false
		}
		err = u.Unwrap()
		if err == nil {
			return false
		}
	}
}

// errors.As is only ever called with a *Error target in this package.
//
//verif:replace errors.As
func vStubErrorsAs(err error, target any) bool {
	tp, ok := target.(*Error)
	if !ok {
		vUnsupported("errors.As with a target other than *Error")
	}
	for err != nil {
		if e, ok := err.(Error); ok {
			*tp = e
			return true
		}
		if x, ok := err.(interface{ As(any) bool }); ok && x.As(target) {
			return true
		}
		u, ok := err.(interface{ Unwrap() error })
		if !ok {
			return false
		}
		err = u.Unwrap()
	}
	return false
}

// fastrand chooses the padding length. The executor explores the smallest
// three values (and, in the thorough tier, the largest one) instead of all.
//
//verif:replace github.com/valyala/fastrand.Uint32n
func vStubFastrandUint32n(n uint32) uint32 {
	v := vEnv32()
	vAssume(v < n)
	vAssume(v < 3 || (vTier() > 0 && v == n-1))
	return v
}

// Data.SetData copies the chunk into the frame. With a body of symbolic
// length the copy cannot be enumerated, so harnesses that only care about
// which bytes go out opt into this aliasing version.
//
//verif:stub (*github.com/dgrr/http2.Data).SetData
func vStubDataSetDataAlias(d *Data, b []byte) { d.b = b }

// Request.AppendBody with a body of symbolic length: only the byte count is
// kept.
//
//verif:stub (*github.com/valyala/fasthttp.Request).AppendBody
func vStubReqAppendBodyCount(r *fasthttp.Request, p []byte) {
	vGhostOf(r).contentLength += len(p)
}

// vSentFrame is what a frame written through the recording WriteTo stub looked
// like.
type vSentFrame struct {
	kind      FrameType
	stream    uint32
	endStream bool
	data      []byte
}

var vSent []vSentFrame

// FrameHeader.WriteTo serialises and copies the payload. With a body of
// symbolic length the copy cannot be enumerated, so the client send-path
// harnesses record the frame instead (wire layout is C05's business).
//
//verif:stub (*github.com/dgrr/http2.FrameHeader).WriteTo
func vStubWriteToRecord(f *FrameHeader, w *bufio.Writer) (int64, error) {
	sf := vSentFrame{kind: f.fr.Type(), stream: f.stream}
	if d, ok := f.fr.(*Data); ok {
		sf.endStream = d.endStream
		sf.data = d.b
	}
	vSent = append(vSent, sf)
	return int64(9 + len(sf.data)), nil
}

// Response.AppendBody with a body of symbolic length: only the byte count is
// kept.
//
//verif:stub (*github.com/valyala/fasthttp.Response).AppendBody
func vStubRespAppendBodyCount(r *fasthttp.Response, p []byte) {
	vGhostOf(r).contentLength += len(p)
}
