package http2

import "github.com/valyala/fasthttp"

// C20, continued: the whole-list harness is kept in a file of its own because it
// touches no internal state of the package, so it still compiles when a change
// renames or removes the fields the step harnesses in h_C20.go set up.

// vMenuField is one header field of the request-list harness: how it looks
// on the wire (literal without indexing, new name) and as name/value.
type vMenuField struct{ name, value string }

var vFieldMenu = [10]vMenuField{
	{":method", "GET"}, {":scheme", "https"}, {":path", "/9"}, {":authority", "h"},
	{"x-ok", "1"}, {"connection", "close"}, {"content-length", "0"},
	{"te", "trailers"}, {"X-Up", "1"}, {":status", "200"},
}

// A whole request header list of 4 fields, each drawn from a menu of seven
// (quick: the four request pseudo-headers, two harmless regular fields, a
// connection-specific field) or ten (thorough: also TE, an upper-case name, a
// response pseudo-header), delivered through the real read loop and stream loop, in one
// HEADERS frame or split at a field boundary into HEADERS + CONTINUATION:
// the handler runs exactly when folding the RFC 7540 8.1.2 automaton over the
// list accepts it and :method, :scheme and :path are all there; otherwise the
// stream alone is refused with PROTOCOL_ERROR. This harness touches no
// internal state of the package.
//
//verif:harness prop=C20 unwind=64 timeout=600
func VerifH_C20_reqlist() {
	n := 4
	var st refReqState
	ok := true
	var frags [][]byte
	for i := 0; i < n; i++ {
		f := vFieldMenu[vRange(0, vPick(6, 9))]
		var stepOK, dup bool
		st, stepOK, dup = refReqStep(st, []byte(f.name), []byte(f.value))
		ok = ok && stepOK && !dup
		frags = append(frags, vLiteralField([]byte(f.name), []byte(f.value)))
	}
	ok = ok && st.method && st.scheme && st.path
	split := vRange(0, n) // fields in the HEADERS frame; n = no CONTINUATION
	s := vStartServer(8)
	var first, rest []byte
	for i, fr := range frags {
		if i < split {
			first = append(first, fr...)
		} else {
			rest = append(rest, fr...)
		}
	}
	if split == n {
		s.send(vFrame(0x1, 0x5, 1, first))
	} else {
		s.send(vFrame(0x1, 0x1, 1, first))
		s.send(vFrame(0x9, 0x4, 1, rest))
	}
	r := vClassify(s.replies())
	vAssert(!r.goaway, "C20.reqlist.never-a-connection-error")
	if ok {
		vAssert(len(s.handled) == 1 && r.headers[1] == 1 && len(r.rst) == 0, "C20.reqlist.well-formed-is-dispatched")
	} else {
		vAssert(len(s.handled) == 0, "C20.reqlist.malformed-is-not-dispatched")
		vAssert(r.rst[1] == ProtocolError || r.headers[1] == 1, "C20.reqlist.malformed-is-refused-alone")
	}
	vCover("C20.reqlist.ok-split", ok && split == 2)
	vCover("C20.reqlist.pseudo-after-regular-across-frames", !ok && split == 2 && len(s.handled) == 0)
}

var vRespMenu = [7]vMenuField{
	{":status", "200"}, {":status", "404"}, {"x-ok", "1"}, {"content-length", "2"},
	{"connection", "close"}, {"X-Up", "1"}, {":path", "/"},
}

// The response side: a response header list of 3 fields from a menu of seven
// (:status twice with different values, two harmless fields, a
// connection-specific field, an upper-case name, a request pseudo-header),
// in one HEADERS frame or split at a field boundary into HEADERS +
// CONTINUATION, followed by a 2-byte body, through the client's real loops:
// the caller gets the response exactly when the list is well-formed (one
// :status, first; lower-case names; no connection-specific field), and an
// error for that request alone otherwise.
//
//verif:harness prop=C20 unwind=200 timeout=600
func VerifH_C20_reslist() {
	n := 3
	statusSeen, regular, ok := 0, false, true
	var frags [][]byte
	for i := 0; i < n; i++ {
		f := vRespMenu[vRange(0, 6)]
		switch {
		case f.name == ":status":
			statusSeen++
			ok = ok && !regular && statusSeen == 1
		case f.name[0] == ':':
			ok = false
		default:
			regular = true
			ok = ok && f.name != "connection" && f.name != "X-Up"
		}
		frags = append(frags, vLiteralField([]byte(f.name), []byte(f.value)))
	}
	ok = ok && statusSeen == 1
	split := vRange(1, n)
	cl := vStartClient()
	a := cl.request("GET", "/a", nil)
	b := cl.request("GET", "/b", nil)
	cl.sent()
	var first, rest []byte
	for i, fr := range frags {
		if i < split {
			first = append(first, fr...)
		} else {
			rest = append(rest, fr...)
		}
	}
	if split == n {
		cl.feed(vFrame(0x1, 0x4, 1, first))
	} else {
		cl.feed(vFrame(0x1, 0x0, 1, first))
		cl.feed(vFrame(0x9, 0x4, 1, rest))
	}
	cl.feed(vFrame(0x0, 0x1, 1, []byte("ok")))
	// the other request is answered properly afterwards
	cl.feed(vFrame(0x1, 0x4, 3, vRespBlock(true, 'b')))
	cl.feed(vFrame(0x0, 0x1, 3, []byte("nf")))
	da, ea := a.outcome()
	db, eb := b.outcome()
	vAssert(da, "C20.reslist.request-ends")
	vAssert((ea == nil) == ok, "C20.reslist.delivered-iff-well-formed")
	vAssert(db && eb == nil && b.res.StatusCode() == 404, "C20.reslist.other-request-unaffected")
	vCover("C20.reslist.ok", ok && split == 2)
	vCover("C20.reslist.two-status", !ok && statusSeen == 2)
}

// A malformed response fails its own request alone: its header block (an
// upper-case field name, a connection-specific field, a second :status or a
// bad content-length, followed by a field that is inserted into the dynamic
// table), whole or cut at any byte, fails the request on stream 1; the
// response on stream 3, which refers to that entry by index, is delivered
// intact.
//
//verif:harness prop=C20,C09 unwind=300 timeout=600
func VerifH_C20_resalone() {
	cl := vStartClient()
	a := cl.request("GET", "/a", nil)
	b := cl.request("GET", "/b", nil)
	cl.sent()
	var bad []byte
	switch vRange(0, 3) {
	case 0:
		bad = []byte{0x00, 0x03, 'X', '-', 'U', 0x01, 'u'}
	case 1:
		bad = []byte{0x00, 0x0a, 'c', 'o', 'n', 'n', 'e', 'c', 't', 'i', 'o', 'n', 0x01, 'x'}
	case 2:
		bad = []byte{0x8d}
	default:
		bad = []byte{0x0f, 0x0d, 0x01, 'x'} // content-length: x
	}
	blk := append([]byte{0x88}, bad...)
	blk = append(blk, 0x40, 0x03, 'x', '-', 't', 0x01, 'A')
	cut := vRange(0, len(blk))
	if cut == len(blk) {
		cl.feed(vFrame(0x1, 0x5, 1, blk))
	} else {
		cl.feed(vFrame(0x1, 0x1, 1, blk[:cut]))
		cl.feed(vFrame(0x9, 0x4, 1, blk[cut:]))
	}
	da, ea := a.outcome()
	vAssert(da && ea != nil, "C20.resalone.malformed-response-fails-its-request")
	cl.feed(vFrame(0x1, 0x5, 3, []byte{0x8d, 0xbe}))
	db, eb := b.outcome()
	vAssert(db && eb == nil, "C20.resalone.other-request-answered")
	if db && eb == nil {
		vAssert(b.res.StatusCode() == 404 && string(b.res.Header.Peek("x-t")) == "A", "C20.resalone.other-response-intact")
	}
	vCover("C20.resalone.cut", cut == 3 && db)
}

// Trailers: a request whose header block is well-formed, one DATA frame, and
// a trailer block (HEADERS with END_STREAM) that holds one field: a regular
// field (legal), or a pseudo-header - :authority, a second :method, :path, an
// undefined one - which RFC 7540 8.1.2.1 forbids in trailers. The handler
// runs exactly for the legal one; the others are refused as malformed (stream
// or connection error of type PROTOCOL_ERROR) and nothing of the trailer
// reaches a request.
//
//verif:harness prop=C20 unwind=300 timeout=600
func VerifH_C20_trailers() {
	s := vStartServer(8)
	host := ""
	s.sc.h = func(ctx *fasthttp.RequestCtx) {
		s.handled = append(s.handled, string(ctx.Request.Header.RequestURI()))
		host = string(ctx.Request.Header.Host())
		ctx.Response.SetStatusCode(200)
	}
	var tr []byte
	which := vRange(0, 4)
	switch which {
	case 0:
		tr = []byte{0x00, 0x03, 'x', '-', 't', 0x01, 'v'}
	case 1:
		tr = []byte{0x01, 0x04, 'e', 'v', 'i', 'l'} // :authority evil
	case 2:
		tr = []byte{0x82} // :method GET
	case 3:
		tr = []byte{0x04, 0x02, '/', 'z'} // :path /z
	default:
		tr = []byte{0x00, 0x04, ':', 'f', 'o', 'o', 0x01, 'v'}
	}
	s.send(vFrame(0x1, 0x4, 1, vBlock(true, '1')))
	s.send(vFrame(0x0, 0x0, 1, []byte("d")))
	s.send(vFrame(0x1, 0x5, 1, tr))
	r := vClassify(s.replies())
	if which == 0 {
		vAssert(len(s.handled) == 1 && !r.goaway && len(r.rst) == 0, "C20.trailers.legal-trailers-accepted")
	} else {
		vAssert(len(s.handled) == 0, "C20.trailers.pseudo-header-in-trailers-is-malformed")
		vAssert(r.goaway || len(r.rst) == 1, "C20.trailers.refused")
		vAssert(host != "evil", "C20.trailers.nothing-taken-from-the-trailer")
	}
	vCover("C20.trailers.legal", which == 0 && len(s.handled) == 1)
}
