package http2

import (
	"bufio"
	"io"
	"runtime"
	"strings"
	"time"

	"github.com/valyala/fasthttp"
)

// Infrastructure for the harnesses that run the server's real loops (read
// loop, stream loop, handlers) as cooperating tasks under the executor, and
// as real goroutines natively.

// vPipeReader is the socket's read side: the harness hands it the peer's
// bytes piece by piece; closing the channel is the peer going away.
type vPipeReader struct {
	ch   chan []byte
	rest []byte
}

func (r *vPipeReader) Read(p []byte) (int, error) {
	if len(r.rest) == 0 {
		b, ok := <-r.ch
		if !ok {
			return 0, io.EOF
		}
		r.rest = b
	}
	n := copy(p, r.rest)
	r.rest = r.rest[n:]
	return n, nil
}

type vServer struct {
	sc      *serverConn
	in      *vPipeReader
	handled []string        // :path of every request whose handler started, in order
	gate    chan struct{}   // handlers wait here when hold is set
	hold    bool
	readErr chan error      // result of the read loop
	loopEnd chan struct{}   // closed when the stream loop returns
}

// vStartServer starts the stream loop and the read loop on a scripted socket.
func vStartServer(maxStreams uint32) *vServer {
	s := &vServer{in: &vPipeReader{ch: make(chan []byte, 16)}, gate: make(chan struct{}, 16), readErr: make(chan error, 1), loopEnd: make(chan struct{})}
	sc := vNewServerConn()
	sc.st.maxStreams = maxStreams
	sc.maxHeaderList = DefaultMaxHeaderListSize
	sc.br = bufio.NewReaderSize(s.in, 256)
	sc.handlerDone = make(chan *Stream, 128)
	sc.handlerStop = make(chan struct{})
	sc.closer = make(chan struct{}, 1)
	sc.maxRequestTimer = time.NewTimer(timerDisarmed)
	sc.h = func(ctx *fasthttp.RequestCtx) {
		s.handled = append(s.handled, string(ctx.Request.Header.RequestURI()))
		if s.hold {
			<-s.gate
		}
		ctx.Response.SetStatusCode(200)
	}
	s.sc = sc
	go func() {
		sc.handleStreams()
		close(s.loopEnd)
	}()
	go func() {
		err := sc.readLoop()
		close(sc.reader) // what Serve does once the read loop is back
		s.readErr <- err
	}()
	return s
}

// vFrame builds the wire bytes of one frame.
func vFrame(typ byte, flags byte, stream uint32, payload []byte) []byte {
	b := []byte{byte(len(payload) >> 16), byte(len(payload) >> 8), byte(len(payload)), typ, flags,
		byte(stream >> 24), byte(stream >> 16), byte(stream >> 8), byte(stream)}
	return append(b, payload...)
}

// send delivers bytes to the server and lets every task run until nothing
// can move.
func (s *vServer) send(b []byte) {
	s.in.ch <- b
	vSettle()
}

// vSettle lets the other tasks run to quiescence (executor) or gives the
// goroutines time to get there (native replay).
func vSettle() {
	if vSymbolic() {
		vQuiesce()
		return
	}
	// Natively: until two looks 5 ms apart show every other goroutine of the
	// package parked in the same place (none running or runnable), for at most
	// 2 s. A fixed sleep is not enough on a loaded machine.
	time.Sleep(5 * time.Millisecond)
	prev := ""
	for i := 0; i < 400; i++ {
		cur, busy := vGoroutineStates()
		if !busy && cur == prev {
			return
		}
		prev = cur
		time.Sleep(5 * time.Millisecond)
	}
}

// vGoroutineStates summarises where the other goroutines are (id, state and
// top frame of each) and whether any of them could still make a move.
func vGoroutineStates() (string, bool) {
	buf := make([]byte, 1<<20)
	buf = buf[:runtime.Stack(buf, true)]
	var b strings.Builder
	busy := false
	for i, g := range strings.Split(string(buf), "\n\n") {
		if i == 0 {
			continue // the caller
		}
		lines := strings.SplitN(g, "\n", 3)
		if len(lines) < 2 {
			continue
		}
		head := lines[0]
		if strings.Contains(head, "[running]") || strings.Contains(head, "[runnable]") || strings.Contains(head, "[sleep]") {
			if strings.Contains(g, "github.com/dgrr/http2.") {
				busy = true
			}
		}
		b.WriteString(head)
		b.WriteString(lines[1])
		b.WriteByte(';')
	}
	return b.String(), busy
}

// replies drains the frames queued for the peer since the last call.
func (s *vServer) replies() []*FrameHeader { return vDrainWriter(s.sc) }

type vReaction struct {
	goaway     bool
	goawayCode ErrorCode
	goawayLast uint32
	rst        map[uint32]ErrorCode
	headers    map[uint32]int
	endStream  map[uint32]int
	acks       int
	other      int
}

func vClassify(frames []*FrameHeader) *vReaction {
	r := &vReaction{rst: map[uint32]ErrorCode{}, headers: map[uint32]int{}, endStream: map[uint32]int{}}
	for _, fr := range frames {
		switch b := fr.Body().(type) {
		case *GoAway:
			r.goaway, r.goawayCode, r.goawayLast = true, b.Code(), b.Stream()
		case *RstStream:
			r.rst[fr.Stream()] = b.Code()
		case *Headers:
			r.headers[fr.Stream()]++
			if b.EndStream() {
				r.endStream[fr.Stream()]++
			}
		case *Data:
			if b.EndStream() {
				r.endStream[fr.Stream()]++
			}
		case *Settings:
			if b.IsAck() {
				r.acks++
			}
		default:
			r.other++
		}
	}
	return r
}

// vBlock is a request header block without HPACK state: :method GET or POST
// and :scheme https from the static table, :path "/<digit>" as a literal
// without indexing. The path identifies the request in the handler log.
func vBlock(post bool, digit byte) []byte {
	m := byte(0x82)
	if post {
		m = 0x83
	}
	return []byte{m, 0x87, 0x04, 0x02, '/', digit}
}

// vPoolsSane checks that no stream or request context sits in its pool
// twice: two acquisitions in a row must give different objects. (Natively the
// replay runs with GOMAXPROCS(1), where sync.Pool hands back what was put
// last.)
func vPoolsSane(tag string) {
	a, b := streamPool.Get().(*Stream), streamPool.Get().(*Stream)
	vAssert(a != b, tag+".stream-has-one-owner")
	x, y := ctxPool.Get().(*fasthttp.RequestCtx), ctxPool.Get().(*fasthttp.RequestCtx)
	vAssert(x != y, tag+".request-context-has-one-owner")
}

// vLiteralField encodes one field as an HPACK literal without indexing with
// raw strings (lengths below 127).
func vLiteralField(name, value []byte) []byte {
	b := []byte{0x00, byte(len(name))}
	b = append(b, name...)
	b = append(b, byte(len(value)))
	return append(b, value...)
}

