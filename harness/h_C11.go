package http2

import (
	"fmt"

	"github.com/valyala/fasthttp"
)

// C11 — the client honours GOAWAY; only a never-processed request is called
// retryable.

// Three requests are in flight on streams 1, 3 and 5 when the server sends
// GOAWAY(NO_ERROR) with last-stream-id 1, 3 or 5, then answers the streams it
// kept, each as HEADERS followed by DATA with END_STREAM, in ascending or
// descending order, and finally closes the connection. Afterwards: no further
// stream can be opened; every request above last-stream-id has ended with an
// error that is not a success and that is retryable (the server disclaimed
// it); every request at or below it has completed with its own response.
//
//verif:harness prop=C11,C12 unwind=200 timeout=600
func VerifH_C11_goaway() {
	cl := vStartClient()
	calls := []*vCall{cl.request("GET", "/1", nil), cl.request("GET", "/3", nil), cl.request("GET", "/5", nil)}
	cl.sent()
	last := uint32(1 + 2*vRange(0, 2))
	if vBool() {
		// graceful shutdown (RFC 7540 6.8): a first GOAWAY with 2^31-1 as a
		// warning, then the one with the real last-stream-id
		cl.feed(vFrame(0x7, 0x0, 0, []byte{0x7f, 0xff, 0xff, 0xff, 0, 0, 0, 0}))
		vAssert(!cl.c.CanOpenStream(), "C11.goaway.no-new-streams-after-the-warning")
	}
	cl.feed(vFrame(0x7, 0x0, 0, []byte{byte(last >> 24), byte(last >> 16), byte(last >> 8), byte(last), 0, 0, 0, 0}))
	vAssert(!cl.c.CanOpenStream(), "C11.goaway.no-new-streams")
	// the requests the server disclaims end promptly, not when the connection does
	for i, k := range calls {
		if uint32(1+2*i) > last {
			select {
			case err := <-k.ctx.Err:
				k.ctx.Err <- err // leave it for the checks below
			default:
				vAssert(false, "C11.goaway.disclaimed-request-ends-promptly")
			}
		}
	}
	// the streams above last-stream-id are over as far as the server is concerned
	desc := vBool()
	var order []uint32
	for id := uint32(1); id <= last; id += 2 {
		order = append(order, id)
	}
	if desc {
		for i, j := 0, len(order)-1; i < j; i, j = i+1, j-1 {
			order[i], order[j] = order[j], order[i]
		}
	}
	for _, id := range order {
		cl.feed(vFrame(0x1, 0x4, id, vRespBlock(false, byte('0'+id))))
		cl.feed(vFrame(0x0, 0x1, id, []byte{'r', byte('0' + id)}))
	}
	close(cl.conn.in) // the server closes once it has answered what it kept
	vSettle()
	for i, k := range calls {
		id := uint32(1 + 2*i)
		done, err := k.outcome()
		vNote(fmt.Sprintf("last=%d desc=%v stream %d: done=%v err=%v", last, desc, id, done, err))
		vAssert(done, "C11.goaway.every-request-ends")
		if id <= last {
			vAssert(err == nil, "C11.goaway.kept-request-completes")
			if err == nil {
				vAssert(k.res.StatusCode() == 200 && string(k.res.Body()) == string([]byte{'r', byte('0' + id)}), "C11.goaway.kept-request-own-response")
			}
		} else {
			vAssert(err != nil, "C11.goaway.disclaimed-request-is-not-a-success")
			vAssert(retryable(err), "C11.goaway.disclaimed-request-is-retryable")
		}
		again, _ := k.outcome()
		vAssert(!again, "C11.goaway.resolved-once")
	}
	vAssert(vLiveTasks() == 0, "C11.goaway.loops-exit")
	vCover("C11.goaway.middle", last == 3 && desc)
}

// A request is only called retryable when its HEADERS cannot have reached the
// server: a request that was written and then lost its connection (peer closes
// without answering, with or without GOAWAY covering it) is not retryable.
//
//verif:harness prop=C11 unwind=200 timeout=600
func VerifH_C11_retry() {
	cl := vStartClient()
	k := cl.request("POST", "/1", []byte("x"))
	wrote := false
	for _, f := range cl.sent() {
		if f.typ == 0x1 && f.stream == 1 {
			wrote = true
		}
	}
	vAssert(wrote, "C11.retry.request-was-written")
	switch vRange(0, 2) {
	case 0: // the server just goes away
	case 1: // GOAWAY that covers the request, then gone
		cl.feed(vFrame(0x7, 0x0, 0, []byte{0, 0, 0, 1, 0, 0, 0, 0}))
	default: // RST_STREAM(INTERNAL_ERROR): the server did process it
		cl.feed(vFrame(0x3, 0x0, 1, []byte{0, 0, 0, 2}))
	}
	close(cl.conn.in)
	vSettle()
	done, err := k.outcome()
	vAssert(done && err != nil, "C11.retry.ends-with-an-error")
	vAssert(!retryable(err), "C11.retry.processed-request-is-not-retryable")
	vCover("C11.retry.done", done)
}

// A request is queued while the write loop is busy (inside a socket write that
// the server is slow to take, answering a PING), the server's GOAWAY(last=1) is
// read meanwhile, and then the write loop gets to the request: no HEADERS frame
// for a new stream is written once the client has received the GOAWAY, the
// request that was turned away ends, and the one the server kept completes.
// The order is forced by the socket, so it is the same under the executor and
// in the native replay.
//
//verif:harness prop=C11 unwind=200 timeout=600
func VerifH_C11_race() {
	cl := vStartClient()
	first := cl.request("GET", "/1", nil)
	cl.sent()
	lateHeaders := false
	cl.conn.onWrite = func(p []byte) {
		// bufio hands whole frames to the socket: a HEADERS frame for a stream
		// above 1 while GOAWAY has been received
		if len(p) >= 9 && p[3] == 0x1 && p[8] > 1 && cl.c.goAway != 0 {
			lateHeaders = true
		}
	}
	// the write loop goes into a socket write and stays there
	cl.conn.wedged = make(chan struct{})
	cl.feed(vFrame(0x6, 0x0, 0, []byte{1, 2, 3, 4, 5, 6, 7, 8}))
	req, res := &fasthttp.Request{}, &fasthttp.Response{}
	req.Header.SetMethod("GET")
	req.URI().SetHost("h")
	req.URI().SetPath("/3")
	req.URI().SetScheme("https")
	second := &Ctx{Request: req, Response: res, Err: make(chan error, 1)}
	cl.c.Write(second) // queued: the write loop is not there to take it
	cl.feed(vFrame(0x7, 0x0, 0, []byte{0, 0, 0, 1, 0, 0, 0, 0})) // GOAWAY(last=1) is read
	vAssert(cl.c.goAway != 0, "C11.race.goaway-received-first")
	close(cl.conn.wedged) // the socket write returns, the write loop goes on
	vSettle()
	vAssert(!lateHeaders, "C11.race.no-stream-opened-after-goaway")
	cl.feed(vFrame(0x1, 0x5, 1, vRespBlock(false, '1')))
	close(cl.conn.in)
	vSettle()
	d1, e1 := first.outcome()
	vAssert(d1 && e1 == nil, "C11.race.kept-request-completes")
	done := false
	select {
	case <-second.Err:
		done = true
	default:
	}
	vAssert(done, "C11.race.second-request-ends")
	vCover("C11.race.done", done)
}
