package http2

// C12 — every client request resolves exactly once, whatever the server does.

// Two requests are in flight. The server's byte stream - a SETTINGS frame, a
// complete response on stream 3, a PING, a response on stream 1 split into
// HEADERS + CONTINUATION + two DATA frames (86 bytes) - is cut off after any
// number of bytes and the connection drops; or its last byte is replaced by
// garbage before it drops; the client's writes fail from a chosen byte on or
// never. Every request ends exactly once (a complete response, or an error),
// no task traps, both loops exit, nothing is left blocked.
//
//verif:harness prop=C12 unwind=300 timeout=900 timeoutT=3000 maxstates=1000000
func VerifH_C12_cut() {
	var wire []byte
	wire = append(wire, vFrame(0x4, 0x0, 0, []byte{0, 3, 0, 0, 0, 100})...)
	wire = append(wire, vFrame(0x1, 0x4, 3, vRespBlock(true, 'b'))...)
	wire = append(wire, vFrame(0x0, 0x1, 3, []byte("no"))...)
	wire = append(wire, vFrame(0x6, 0x0, 0, []byte{1, 2, 3, 4, 5, 6, 7, 8})...)
	blk := vRespBlock(false, 'a')
	wire = append(wire, vFrame(0x1, 0x0, 1, blk[:3])...)
	wire = append(wire, vFrame(0x9, 0x4, 1, blk[3:])...)
	wire = append(wire, vFrame(0x0, 0x0, 1, []byte("ye"))...)
	wire = append(wire, vFrame(0x0, 0x1, 1, []byte("s"))...)
	cut := vRange(0, len(wire))
	garbage := vBool()
	failAt := [3]int{-1, 0, 30}[vRange(0, 2)]

	cl := vStartClient()
	cl.conn.w.failAt = failAt
	a := cl.request("GET", "/a", nil)
	b := cl.request("POST", "/b", []byte("body"))
	if cut > 0 {
		chunk := append([]byte(nil), wire[:cut]...)
		if garbage {
			chunk[cut-1] ^= vU8() | 1
		}
		// thorough tier: in two pieces split at any byte
		first := cut
		if vTier() > 0 {
			first = vRange(0, cut)
		}
		if first > 0 {
			cl.feed(chunk[:first])
		}
		if cut > first {
			cl.feed(chunk[first:])
		}
	}
	close(cl.conn.in)
	vSettle()

	for _, k := range []*vCall{a, b} {
		done, err := k.outcome()
		vAssert(done, "C12.cut.every-request-ends")
		again, _ := k.outcome()
		vAssert(!again, "C12.cut.exactly-once")
		if done && err == nil && !garbage && failAt < 0 {
			vAssert(k.res.StatusCode() == 200 || k.res.StatusCode() == 404, "C12.cut.success-has-a-status")
		}
	}
	if cut == len(wire) && !garbage && failAt < 0 {
		_, ea := a.outcome()
		_ = ea
	}
	vAssert(vLiveTasks() == 0, "C12.cut.loops-exit")
	vAssert(cl.c.Closed(), "C12.cut.connection-closed")
	vCover("C12.cut.whole", cut == len(wire) && !garbage && failAt < 0)
	vCover("C12.cut.mid-frame", cut == 30)
}
