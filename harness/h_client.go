package http2

import (
	"bufio"
	"time"

	"github.com/valyala/fasthttp"
)

// Infrastructure for the client-side loop harnesses: the real write loop and
// read loop of a Conn run as tasks over a scripted socket.

type vCall struct {
	ctx *Ctx
	req *fasthttp.Request
	res *fasthttp.Response
}

type vClient struct {
	c    *Conn
	conn *vConn
	pos  int // bytes of conn.w.out already looked at
}

func vStartClient() *vClient {
	conn := &vConn{in: make(chan []byte, 16), done: make(chan struct{})}
	conn.w.failAt = -1
	c := vNewConn()
	c.c = conn
	c.br = bufio.NewReaderSize(conn, 256)
	c.bw = bufio.NewWriterSize(conn, 256)
	c.pingInterval = time.Hour
	c.disableAcks = true
	cl := &vClient{c: c, conn: conn}
	go c.writeLoop()
	go c.readLoop()
	return cl
}

// request hands one request to the connection the way Client.roundTripOnce
// does, without the response timer.
func (cl *vClient) request(method, path string, body []byte) *vCall {
	req, res := &fasthttp.Request{}, &fasthttp.Response{}
	req.Header.SetMethod(method)
	req.URI().SetHost("h")
	req.URI().SetPath(path)
	req.URI().SetScheme("https")
	if body != nil {
		req.SetBody(body)
	}
	ctx := &Ctx{Request: req, Response: res, Err: make(chan error, 1)}
	cl.c.Write(ctx)
	vSettle()
	return &vCall{ctx: ctx, req: req, res: res}
}

// outcome reports whether the call has been resolved and with what.
func (k *vCall) outcome() (done bool, err error) {
	select {
	case err = <-k.ctx.Err:
		return true, err
	default:
		return false, nil
	}
}

// sent parses the frames the client has written since the last call.
func (cl *vClient) sent() []refFrame {
	var out []refFrame
	b := cl.conn.w.out[cl.pos:]
	for len(b) >= 9 {
		f, used, st := refParseFrame(b, 0)
		if st != refFrOK {
			break
		}
		out = append(out, f)
		b = b[used:]
		cl.pos += used
	}
	return out
}

func (cl *vClient) feed(b []byte) {
	cl.conn.in <- b
	vSettle()
}

// vRespBlock is a response header block: :status 200 or 404 from the static
// table plus one literal field.
func vRespBlock(notFound bool, tag byte) []byte {
	st := byte(0x88)
	if notFound {
		st = 0x8d
	}
	return []byte{st, 0x00, 0x03, 'x', '-', 't', 0x01, tag}
}
