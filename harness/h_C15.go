package http2

// C15 — Huffman coding is the RFC 7541 code: lossless, canonical, strict.

// The repository's code tables are the Appendix B tables, for every symbol.
//
//verif:harness prop=C15 unwind=4
func VerifH_C15_tab() {
	b := vU8()
	vAssert(huffmanCodes[b] == refHuffCode[b], "C15.tab.code")
	vAssert(huffmanCodeLen[b] == refHuffLen[b], "C15.tab.len")
	vCover("C15.tab.long", huffmanCodeLen[b] == 30)
}

// HuffmanEncode(s) is the concatenation of the Appendix B codes padded with
// one-bits, for every s of up to 2 (quick) / 3 (thorough) bytes, appended
// after an arbitrary existing destination prefix.
//
//verif:harness prop=C15 unwind=12
func VerifH_C15_enc() {
	n := vRange(0, vPick(2, 3))
	s := vBytes(n)
	pre := vBytes(vRange(0, 1))
	ref, rn := refHuffEncode(s)
	out := HuffmanEncode(append([]byte(nil), pre...), s)
	vAssert(len(out) == len(pre)+rn, "C15.enc.len")
	for i := range pre {
		vAssert(out[i] == pre[i], "C15.enc.prefix-kept")
	}
	for i := len(pre); i < len(out); i++ {
		vAssert(out[i] == ref[i-len(pre)], "C15.enc.bytes")
	}
	vCover("C15.enc.long", n == 2 && len(out) >= 7)
	vCover("C15.enc.nopad", n >= 1 && len(out) == 1 && out[0]&1 == 0)
}

// HuffmanDecode accepts exactly the strings the RFC makes valid and yields
// the unique decoding, for every input of up to 2 (quick) / 4 (thorough)
// bytes.
//
//verif:harness prop=C15 unwind=24 timeoutT=2400
func VerifH_C15_strict() {
	n := vRange(0, vPick(2, 4))
	in := vBytes(n)
	ref, cnt, ok := refHuffDecode(in)
	pre := vBytes(vRange(0, 1))
	dst, err := HuffmanDecode(append([]byte(nil), pre...), in)
	vAssert((err == nil) == ok, "C15.strict.accept")
	if err == nil {
		vAssert(len(dst) == len(pre)+cnt, "C15.strict.len")
		for i := range pre {
			vAssert(dst[i] == pre[i], "C15.strict.prefix-kept")
		}
		for i := len(pre); i < len(dst); i++ {
			vAssert(dst[i] == ref[i-len(pre)], "C15.strict.bytes")
		}
	}
	vCover("C15.strict.accept2", n == 2 && err == nil && len(dst)-len(pre) == 2)
	vCover("C15.strict.reject-pad", n == 2 && err != nil && in[0] == 0x07)
}

// The same for longer inputs of a particular shape: two fixed octets that
// leave the decoder with 0..7 bits of an unfinished code in hand (one pair per
// count; quick: three of them), followed by any two octets. This is where the
// end of the input is handled with a code in progress, several codes in the
// last bits, or padding right after a carried-over code.
//
//verif:harness prop=C15 unwind=24 timeout=900 timeoutT=3000
func VerifH_C15_tail() {
	// "/g" + 4 bits, "00" + 6 bits, "0/" + 5 bits, "//" + 4 bits (another
	// value), "0 " (space is 6 bits) ..: the leftovers differ in count and value
	prefixes := [8][2]byte{{0x62, 0x63}, {0x00, 0x3f}, {0x00, 0x00}, {0x61, 0x8f}, {0x05, 0x07}, {0xf8, 0x7f}, {0xfe, 0x3f}, {0x18, 0xc7}}
	p := prefixes[vRange(0, vPick(2, 7))]
	in := append([]byte{p[0], p[1]}, vBytes(2)...)
	ref, cnt, ok := refHuffDecode(in)
	dst, err := HuffmanDecode(nil, in)
	vAssert((err == nil) == ok, "C15.tail.accept")
	if err == nil {
		vAssert(len(dst) == cnt, "C15.tail.len")
		for i := range dst {
			vAssert(dst[i] == ref[i], "C15.tail.bytes")
		}
	}
	vCover("C15.tail.two-in-the-last-bits", p[0] == 0x62 && err == nil && cnt == 5)
}

// Decode(Encode(s)) == s, for every s of at most 1 symbol (thorough tier
// only: the composed table lookups make each query take seconds). The executor case-splits on the code length of each symbol so that
// every shift amount is a constant on each path.
//
//verif:harness prop=C15 unwind=24 tier=thorough timeoutT=3000
func VerifH_C15_rt() {
	n := vRange(0, 1)
	s := vBytes(n)
	for _, b := range s {
		vSplit(uint64(huffmanCodeLen[b]))
	}
	enc := HuffmanEncode(nil, s)
	dec, err := HuffmanDecode(nil, enc)
	vAssert(err == nil, "C15.rt.accepts-own-output")
	if err == nil {
		vAssert(len(dec) == n, "C15.rt.len")
		for i := 0; i < len(dec) && i < n; i++ {
			vAssert(dec[i] == s[i], "C15.rt.bytes")
		}
	}
	vCover("C15.rt.long", n == 1 && len(enc) == 4)
}
