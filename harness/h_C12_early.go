package http2

import (
	"io"

	"github.com/valyala/fasthttp"
)

// requestStream hands over a request whose body is a stream of the given
// declared size.
func (cl *vClient) requestStream(path string, rd io.Reader, size int) *vCall {
	req, res := &fasthttp.Request{}, &fasthttp.Response{}
	req.Header.SetMethod("POST")
	req.URI().SetHost("h")
	req.URI().SetPath(path)
	req.URI().SetScheme("https")
	req.SetBodyStream(rd, size)
	ctx := &Ctx{Request: req, Response: res, Err: make(chan error, 1)}
	cl.c.Write(ctx)
	vSettle()
	return &vCall{ctx: ctx, req: req, res: res}
}

// The server answers before the request body has gone out. The body (6 bytes,
// buffered or streamed) is held back by a SETTINGS_INITIAL_WINDOW_SIZE of 0..6
// bytes; the server then sends a complete response, a response whose body
// follows in a DATA frame, or RST_STREAM, and afterwards answers a second
// request. Both requests end exactly once, the early answer reaches its
// caller, the read loop keeps going, and when the connection closes both loops
// exit.
//
//verif:harness prop=C12,C02,C18 unwind=300 timeout=900
func VerifH_C12_early() {
	streamed := vBool()
	how := vRange(0, 2)
	win := vRange(0, 3) * 2
	cl := vStartClient()
	cl.feed(vFrame(0x4, 0x0, 0, []byte{0, 4, 0, 0, 0, byte(win)}))
	var up *vCall
	if streamed {
		rd := &vScriptReader{}
		rd.n[0], rd.eof[1] = 6, true
		up = cl.requestStream("/up", rd, 6)
	} else {
		up = cl.request("POST", "/up", []byte("abcdef"))
	}
	switch how {
	case 0:
		cl.feed(vFrame(0x1, 0x5, 1, vRespBlock(true, 'e')))
	case 1:
		cl.feed(vFrame(0x1, 0x4, 1, vRespBlock(true, 'e')))
		cl.feed(vFrame(0x0, 0x1, 1, []byte("no")))
	default:
		cl.feed(vFrame(0x3, 0x0, 1, []byte{0, 0, 0, 7}))
	}
	done, err := up.outcome()
	vAssert(done, "C12.early.request-with-unsent-body-ends")
	if done && how < 2 {
		vAssert(err == nil && up.res.StatusCode() == 404, "C12.early.early-response-reaches-the-caller")
	}
	if done && how == 2 {
		vAssert(err != nil, "C12.early.reset-is-an-error")
	}
	// the server is told that the rest of the body will not come: without
	// END_STREAM or RST_STREAM from the client the stream stays open on its
	// side and keeps counting against SETTINGS_MAX_CONCURRENT_STREAMS
	closed := false
	for _, f := range cl.sent() {
		if f.stream == 1 && (f.typ == 0x3 || (f.typ == 0x0 && f.flags&0x1 != 0)) {
			closed = true
		}
	}
	if how < 2 {
		vAssert(closed, "C12.early.stream-is-closed-towards-the-server")
	}
	// the connection is still good for another request
	next := cl.request("GET", "/next", nil)
	cl.feed(vFrame(0x1, 0x5, 3, vRespBlock(false, 'n')))
	d2, e2 := next.outcome()
	vAssert(d2 && e2 == nil, "C12.early.read-loop-still-serves-the-connection")
	again, _ := up.outcome()
	vAssert(!again, "C12.early.exactly-once")
	close(cl.conn.in)
	vSettle()
	vAssert(vLiveTasks() == 0, "C12.early.loops-exit")
	vCover("C12.early.streamed-blocked", streamed && win < 6 && done)
	vCover("C12.early.rst", how == 2 && done)
}

// The client's writes fail from any byte 0..70 on (in a HEADERS frame, in the
// DATA of the second request, or between frames) while the server stays
// connected and silent (the second request's body buffered or streamed): all
// three requests end, their callers can take them back, the socket is closed and both
// loops exit without the peer having to hang up.
//
//verif:harness prop=C12 unwind=300 timeout=900
func VerifH_C12_wfail() {
	failAt := vRange(0, 70)
	cl := vStartClient()
	cl.conn.w.failAt = failAt
	a := cl.request("GET", "/a", nil)
	var b *vCall
	if vBool() {
		b = cl.request("POST", "/b", []byte("body"))
	} else {
		rd := &vScriptReader{}
		rd.n[0], rd.eof[1] = 4, true
		b = cl.requestStream("/b", rd, 4)
	}
	c := cl.request("GET", "/c", nil)
	vSettle()
	if !cl.conn.w.failed {
		return // everything fitted in front of the failing byte: nothing failed
	}
	n := 0
	for _, k := range []*vCall{a, b, c} {
		done, err := k.outcome()
		vAssert(done, "C12.wfail.every-request-ends")
		if done && err != nil {
			n++
		}
	}
	vAssert(n > 0, "C12.wfail.some-request-saw-the-failure")
	// RoundTrip takes the request back from the connection before it returns
	// to its caller: that must not wait for anything either
	back := 0
	for _, k := range []*vCall{a, b, c} {
		k := k
		go func() {
			k.ctx.takeBack()
			back++
		}()
	}
	vSettle()
	vAssert(back == 3, "C12.wfail.callers-get-their-requests-back")
	vAssert(cl.c.Closed(), "C12.wfail.connection-closed")
	vAssert(cl.conn.closed, "C12.wfail.socket-closed")
	vAssert(vLiveTasks() == 0, "C12.wfail.loops-exit")
	vCover("C12.wfail.mid", failAt == 30 && n > 0)
	vCover("C12.wfail.in-body", failAt == 45 && n > 0)
}

// The server has stopped reading (the client's socket write never returns)
// and keeps sending PINGs, so the queue of frames to write is full; then the
// response timer of a request in flight fires. The request ends with the
// timeout error although nothing can be written; when the connection is closed
// everything exits.
//
//verif:harness prop=C12 unwind=600 timeout=900
func VerifH_C12_wedged() {
	cl := vStartClient()
	cl.c.disableAcks = false
	a := cl.request("GET", "/a", nil)
	cl.conn.wedged = make(chan struct{})
	var pings []byte
	for i := 0; i < 131; i++ {
		pings = append(pings, vFrame(0x6, 0x0, 0, []byte{0, 0, 0, 0, 0, 0, 0, byte(i)})...)
	}
	cl.feed(pings)
	vCover("C12.wedged.queue-full", len(cl.c.out) == cap(cl.c.out))
	go a.ctx.fireTimeout() // what the MaxResponseTime timer does
	vSettle()
	done, err := a.outcome()
	vAssert(done && err == ErrRequestCanceled, "C12.wedged.timeout-ends-the-request")
	_ = cl.c.Close()
	vSettle()
	vAssert(vLiveTasks() == 0, "C12.wedged.everything-exits-on-close")
}
