package http2

import (
	"fmt"
	"os"
	"runtime"
	"strings"
	"time"
)

// Harness primitives. Under the symbolic executor every function in this file
// is intercepted by name; the bodies below are the native versions used when
// a solver model is replayed against the real build (values come off a tape).

type vAssertFailed struct{ id string }
type vAssumeFailed struct{}
type vUnsupportedT struct{ msg string }

var (
	vTape    []uint64
	vPos     int
	vTierN   int
	vCovered = map[string]bool{}
)

func vNext() uint64 {
	if vPos >= len(vTape) {
		panic("verif: tape exhausted")
	}
	v := vTape[vPos]
	vPos++
	return v
}

func vU8() uint8   { return uint8(vNext()) }
func vU16() uint16 { return uint16(vNext()) }
func vU32() uint32 { return uint32(vNext()) }
func vU64() uint64 { return vNext() }
func vInt() int    { return int(vNext()) }
func vBool() bool  { return vNext()&1 == 1 }

// vBytes returns n arbitrary bytes (n must be concrete or small).
func vBytes(n int) []byte {
	b := make([]byte, n)
	for i := range b {
		b[i] = vU8()
	}
	return b
}

// vRange returns an arbitrary integer in [lo, hi]; the executor explores each
// value on a path of its own.
func vRange(lo, hi int) int {
	v := int(vNext())
	if v < lo || v > hi {
		panic("verif: tape value outside vRange")
	}
	return v
}

// vAssume restricts the inputs from this point on.
func vAssume(c bool) {
	if !c {
		panic(vAssumeFailed{})
	}
}

// vAssert is a proof obligation.
func vAssert(c bool, id string) {
	if !c {
		panic(vAssertFailed{id})
	}
}

// vCover is a reachability witness: the executor must find inputs that make c
// true at this point, otherwise the harness is reported vacuous.
func vCover(id string, c bool) {
	if c {
		vCovered[id] = true
	}
}

// vKnown excludes the region of a known finding listed (open) in
// known_findings.json; for any other id it does nothing.
func vKnown(id string, region bool) {}

func vTier() int        { return vTierN }
func vSymbolic() bool   { return false }
func vUnsupported(msg string) { panic(vUnsupportedT{msg}) }
func vQuiesce()         {}

// vLiveTasks: under the executor, the number of tasks other than the harness
// that have not finished. Natively, the number of goroutines running this
// package's code beyond those that existed when the case started (the replay
// driver records vGoBase), after giving them a moment to wind down.
func vLiveTasks() int {
	n := 0
	for i := 0; i < 50; i++ {
		n = vPkgGoroutines() - vGoBase
		if n <= 0 {
			return 0
		}
		time.Sleep(10 * time.Millisecond)
	}
	return n
}

var vGoBase int

// vPkgGoroutines counts the goroutines with a frame of this package, other
// than the caller's.
func vPkgGoroutines() int {
	buf := make([]byte, 1<<20)
	buf = buf[:runtime.Stack(buf, true)]
	n := 0
	for i, g := range strings.Split(string(buf), "\n\n") {
		if i == 0 {
			continue // the calling goroutine comes first
		}
		if strings.Contains(g, "github.com/dgrr/http2.") && !strings.Contains(g, "vRunCase(") && !strings.Contains(g, "testing.") {
			n++
		}
	}
	return n
}
func vNote(s string) {
	if os.Getenv("VERIF_VERBOSE") != "" {
		fmt.Fprintln(os.Stderr, "NOTE:", s)
	}
}
func vPoolNotes() int   { return 0 }
func vInPool(x any) bool { return false }

// vAbstractBytes returns a slice of symbolic length whose content is never
// enumerated; natively it is a zero-filled slice.
func vAbstractBytes(n int) []byte {
	b := make([]byte, n)
	for i := range b {
		b[i] = byte(i*31 + 7)
	}
	return b
}

func vPick(quick, thorough int) int {
	if vTier() > 0 {
		return thorough
	}
	return quick
}

// Branch-free helpers: the executor turns them into ite/and/or terms so that
// reference models written with them run on a single path.
func vIte64(c bool, a, b uint64) uint64 {
	if c {
		return a
	}
	return b
}
func vAnd(a, b bool) bool { return a && b }
func vOr(a, b bool) bool  { return a || b }

// vSplit makes the executor case-split on the value of x (one path per
// feasible value, at most maxconc); later occurrences of the same expression
// are constant on each path. Natively it is the identity.
func vSplit(x uint64) uint64 { return x }

// vEnv32 is an arbitrary value chosen by the environment (not by the replay
// tape); it only exists under the executor.
func vEnv32() uint32 { return 0 }

// vChunkIs reports whether chunk is body[off:off+len(chunk)]. Under the
// executor the chunk aliases the body (vStubDataSetDataAlias), so this is
// pointer identity; natively it compares contents.
func vChunkIs(chunk, body []byte, off int) bool {
	if off < 0 || off+len(chunk) > len(body) {
		return false
	}
	if len(chunk) == 0 {
		return true
	}
	if vSymbolic() {
		return &chunk[0] == &body[off]
	}
	for i := range chunk {
		if chunk[i] != body[off+i] {
			return false
		}
	}
	return true
}
