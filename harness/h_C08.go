package http2

import "fmt"

// C08 — the server reacts to each frame as its stream's RFC 7540 state
// prescribes.

// The plainest legal sequence through the real read loop, stream loop and a
// handler task: one GET, answered once on the same stream, no error frames.
//
//verif:harness prop=C08 unwind=64 timeout=300
func VerifH_C08_get() {
	s := vStartServer(8)
	s.send(vFrame(0x1, 0x5, 1, vBlock(false, '1')))
	r := vClassify(s.replies())
	vAssert(len(s.handled) == 1 && s.handled[0] == "/1", "C08.get.dispatched-once")
	vAssert(!r.goaway && len(r.rst) == 0, "C08.get.no-error")
	vAssert(r.headers[1] == 1 && r.endStream[1] == 1, "C08.get.one-response")
	vCover("C08.get.done", len(s.handled) == 1)
}

// ---- reference: RFC 7540 5.1 stream automaton, as seen from the server ----

const (
	rsIdle = iota
	rsOpen
	rsHalfClosed // remote: the client finished its request
	rsClosed
)

type refStream struct {
	st        int
	blockOpen bool // a header block was started and END_HEADERS not seen yet
	hdrsDone  bool // the request header block is complete
	endSeen   bool // END_STREAM seen (possibly before END_HEADERS)
	byReset   bool // closed by RST_STREAM (either side)
	byUs      bool // the server itself reset it: what was in flight then is to be ignored (5.1)
	discard   bool // a header block on such a stream is open: it is decoded and dropped
	implicit  bool // never used, closed by the first use of a higher id (5.1.1)
}

type refConn struct {
	s        [2]refStream // streams 1 and 3
	lastID   uint32
	contOn   uint32 // stream whose header block is open (CONTINUATION expected)
	dead     bool   // a connection error has been raised
	dispatch int    // requests that must have been dispatched so far
	hold     bool   // handlers do not return until released
	sawCont  bool
	win      [2]int64 // the streams' send windows as the peer has set them
}

// reaction classes
const (
	rxNone       = 1 << iota // nothing, or only flow-control/ack frames
	rxResponse               // the request was dispatched and answered
	rxStreamErr              // RST_STREAM (code checked separately)
	rxConnErr                // GOAWAY (code checked separately)
)

// frame kinds of the menu
const (
	fkHeaders     = iota // HEADERS, END_HEADERS
	fkHeadersES          // HEADERS, END_HEADERS|END_STREAM
	fkHeadersOpen        // HEADERS without END_HEADERS (a CONTINUATION has to follow)
	fkHeadersOpenES      // HEADERS with END_STREAM but without END_HEADERS
	fkCont               // CONTINUATION, END_HEADERS
	fkData               // DATA, 1 byte
	fkDataES             // DATA, 1 byte, END_STREAM
	fkRst                // RST_STREAM(CANCEL)
	fkWU                 // WINDOW_UPDATE with an arbitrary 31-bit increment
	fkPrio               // PRIORITY with an arbitrary 31-bit dependency and weight
	fkPing0              // PING on stream 0
	fkSettings0          // empty SETTINGS on stream 0
	fkWUConn             // WINDOW_UPDATE(1) on stream 0
	fkCount
)

// refStep: what RFC 7540 allows as the server's reaction to frame kind k on
// stream id (1 or 3) and the error code it must carry (0: any of the listed).
func (c *refConn) refStep(k int, id uint32, arg uint32) (allowed int, code ErrorCode) {
	i := int(id / 2)
	s := &c.s[i]
	if c.dead {
		return rxNone | rxConnErr | rxStreamErr, 0
	}
	// 6.10: while a header block is open only CONTINUATION on that stream may follow
	if c.contOn != 0 && !(k == fkCont && id == c.contOn) {
		c.dead = true
		return rxConnErr, ProtocolError
	}
	if k == fkPing0 || k == fkSettings0 || k == fkWUConn {
		return rxNone, 0 // answered with an ACK, or nothing
	}
	if k == fkCont {
		if c.contOn == 0 {
			c.dead = true
			return rxConnErr, ProtocolError
		}
		c.contOn = 0
		c.sawCont = true
		if s.discard {
			s.discard = false
			return rxNone | rxStreamErr | rxConnErr, StreamClosedError
		}
		s.blockOpen = false
		if s.hdrsDone { // it was a trailer block
			return c.finishMessage(s)
		}
		s.hdrsDone = true
		if s.endSeen {
			return c.finishMessage(s)
		}
		return rxNone, 0
	}
	switch k {
	case fkHeaders, fkHeadersES, fkHeadersOpen, fkHeadersOpenES:
		es := k == fkHeadersES || k == fkHeadersOpenES
		eh := k != fkHeadersOpen && k != fkHeadersOpenES
		switch s.st {
		case rsIdle:
			if id < c.lastID { // 5.1.1: ids must increase
				c.dead = true
				return rxConnErr, ProtocolError
			}
			c.lastID = id
			// a lower idle stream is implicitly closed
			if id == 3 && c.s[0].st == rsIdle {
				c.s[0].st, c.s[0].implicit = rsClosed, true
			}
			s.st = rsOpen
			if !eh {
				s.blockOpen, c.contOn = true, id
				s.endSeen = es
				return rxNone, 0
			}
			s.hdrsDone = true
			if es {
				return c.finishMessage(s)
			}
			return rxNone, 0
		case rsOpen:
			// a second header block is a trailer block and must end the stream (8.1)
			if !es {
				s.st, s.byReset = rsClosed, true
				c.maybeDead()
				return rxStreamErr | rxConnErr, ProtocolError
			}
			if !eh {
				s.blockOpen, c.contOn = true, id
				s.endSeen = true
				return rxNone, 0
			}
			return c.finishMessage(s)
		case rsHalfClosed:
			s.st, s.byReset = rsClosed, true
			c.maybeDead()
			return rxStreamErr | rxConnErr, StreamClosedError
		default:
			if s.implicit {
				// 5.1.1 calls this an unexpected stream identifier
				// (PROTOCOL_ERROR); 5.1 calls the stream closed
				return rxStreamErr | rxConnErr, 0
			}
			if s.byUs {
				// trailers that were on their way when the server reset the
				// stream: ignoring them is what 5.1 asks for (their block is
				// still a block: CONTINUATION frames may follow)
				if !eh {
					s.discard, c.contOn = true, id
				}
				return rxNone | rxStreamErr | rxConnErr, StreamClosedError
			}
			c.maybeDead()
			return rxStreamErr | rxConnErr, StreamClosedError
		}
	case fkData, fkDataES:
		switch s.st {
		case rsIdle:
			c.dead = true
			return rxConnErr, ProtocolError
		case rsOpen:
			if k == fkDataES {
				return c.finishMessage(s)
			}
			return rxNone, 0
		default:
			if s.implicit {
				return rxStreamErr | rxConnErr, 0
			}
			if s.st == rsHalfClosed {
				s.st, s.byReset = rsClosed, true
			}
			c.maybeDead()
			if s.byUs {
				return rxNone | rxStreamErr | rxConnErr, StreamClosedError
			}
			return rxStreamErr | rxConnErr, StreamClosedError
		}
	case fkRst:
		if s.implicit {
			return rxNone | rxStreamErr | rxConnErr, 0 // never used: 5.1.1 or 5.1, either reading
		}
		if s.st == rsIdle {
			c.dead = true
			return rxConnErr, ProtocolError
		}
		s.st, s.byReset = rsClosed, true
		return rxNone, 0
	case fkWU:
		if s.implicit {
			return rxNone | rxStreamErr | rxConnErr, 0
		}
		if s.st == rsIdle {
			c.dead = true
			return rxConnErr, ProtocolError
		}
		if s.st == rsClosed {
			return rxNone | rxStreamErr | rxConnErr, 0 // 5.1: may arrive for a short period after closing
		}
		if arg == 0 { // 6.9: an increment of 0 is a stream error
			s.st, s.byReset = rsClosed, true
			return rxStreamErr | rxConnErr, ProtocolError
		}
		if int64(c.win[int(id/2)])+int64(arg) > 1<<31-1 { // 6.9.1
			s.st, s.byReset = rsClosed, true
			return rxStreamErr | rxConnErr, FlowControlError
		}
		c.win[int(id/2)] += int64(arg)
		return rxNone, 0
	case fkPrio:
		if arg != id {
			return rxNone, 0 // PRIORITY is allowed in every state (5.1, 6.3)
		}
		if s.st != rsIdle && s.st != rsClosed {
			s.st, s.byReset = rsClosed, true
		}
		return rxStreamErr | rxConnErr, ProtocolError // 5.3.1: a stream cannot depend on itself
	}
	return rxNone, 0
}

// maybeDead: the reaction may have been a connection error, after which the
// oracle accepts anything (the harness stops feeding when it sees GOAWAY).
func (c *refConn) maybeDead() {}

// finishMessage: the request is complete (END_STREAM and END_HEADERS seen):
// it is dispatched, and with a handler that returns at once it is answered
// and the stream is closed.
func (c *refConn) finishMessage(s *refStream) (int, ErrorCode) {
	c.dispatch++
	if c.hold {
		s.st = rsHalfClosed // the response comes when the handler is released
		return rxNone, 0
	}
	s.st = rsClosed
	return rxResponse, 0
}

// vTrailer is a header block with one regular field, for trailer sections.
var vTrailer = []byte{0x00, 0x01, 'a', 0x01, 'b'}

func vKindFrame(k int, id uint32, digit byte, trailer bool, arg uint32) []byte {
	blk, blkGet := vBlock(true, digit), vBlock(false, digit)
	if trailer {
		blk, blkGet = vTrailer, vTrailer
	}
	switch k {
	case fkHeaders:
		return vFrame(0x1, 0x4, id, blk)
	case fkHeadersES:
		return vFrame(0x1, 0x5, id, blkGet)
	case fkHeadersOpen:
		return vFrame(0x1, 0x0, id, blk)
	case fkHeadersOpenES:
		return vFrame(0x1, 0x1, id, blkGet)
	case fkCont:
		return vFrame(0x9, 0x4, id, nil)
	case fkData:
		return vFrame(0x0, 0x0, id, []byte{vU8()})
	case fkDataES:
		return vFrame(0x0, 0x1, id, []byte{vU8()})
	// RST_STREAM, WINDOW_UPDATE and PRIORITY define no flags: whatever bits are
	// set must be ignored (RFC 7540 4.1)
	case fkRst:
		return vFrame(0x3, vU8(), id, []byte{byte(arg >> 24), byte(arg >> 16), byte(arg >> 8), byte(arg)})
	case fkWU:
		return vFrame(0x8, vU8(), id, []byte{byte(arg >> 24), byte(arg >> 16), byte(arg >> 8), byte(arg)})
	case fkPrio:
		return vFrame(0x2, vU8(), id, []byte{byte(arg >> 24), byte(arg >> 16), byte(arg >> 8), byte(arg), vU8()})
	case fkPing0:
		return vFrame(0x6, 0x0, 0, []byte{1, 2, 3, 4, 5, 6, 7, 8})
	case fkSettings0:
		return vFrame(0x4, 0x0, 0, nil)
	case fkWUConn:
		return vFrame(0x8, 0x0, 0, []byte{0, 0, 0, 1})
	default:
		return vFrame(0x8, 0x0, 0, []byte{0, 0, 0, 1})
	}
}

// Every sequence of 3 (quick) / 4 (thorough) frames drawn from thirteen kinds
// (HEADERS with every combination of END_STREAM and END_HEADERS, CONTINUATION, DATA with
// and without END_STREAM, RST_STREAM with any code, WINDOW_UPDATE with any 31-bit increment, PRIORITY
// with any dependency and weight - all with an arbitrary reserved bit, DATA with
// an arbitrary byte - and PING, SETTINGS and WINDOW_UPDATE on stream 0) on streams 1 and 3, through the real read loop,
// stream loop and handlers: after each frame the server's reaction (nothing,
// a response, RST_STREAM, GOAWAY) is one RFC 7540 5.1/6.x allows in that
// stream state, with the error code the RFC names, with handlers that return
// at once or that stay running until the end; a connection error is
// accepted wherever a stream error is; requests are dispatched exactly for
// the legal complete sequences.
//
//verif:harness prop=C08 unwind=64 timeout=900 timeoutT=3000 maxstates=3000000
func VerifH_C08_seq() {
	s := vStartServer(8)
	ref := &refConn{hold: vBool(), win: [2]int64{65535, 65535}}
	s.hold = ref.hold
	n := vPick(3, 4)
	for i := 0; i < n; i++ {
		k := vRange(0, fkCount-1)
		id := uint32(1 + 2*vRange(0, 1))
		trailer := ref.s[int(id/2)].hdrsDone
		// the frame's 32-bit field (window increment, stream dependency, error
		// code) is arbitrary; the reserved top bit is arbitrary as well
		raw := vU32()
		arg := raw & (1<<31 - 1)
		if k == fkRst {
			arg = raw
		}
		allowed, code := ref.refStep(k, id, arg)
		s.send(vKindFrame(k, id, byte('0'+id), trailer, raw))
		r := vClassify(s.replies())
		got := rxNone
		switch {
		case r.goaway:
			got = rxConnErr
		case len(r.rst) > 0:
			got = rxStreamErr
		case r.headers[id] > 0:
			got = rxResponse
		}
		vNote(fmt.Sprintf("frame %d kind=%d id=%d allowed=%b code=%d got=%b goaway=%v/%d rst=%v headers=%v handled=%v", i, k, id, allowed, code, got, r.goaway, r.goawayCode, r.rst, r.headers, s.handled))
		vAssert(got&allowed != 0, "C08.seq.reaction-allowed")
		if got == rxConnErr && code != 0 && allowed&rxConnErr != 0 {
			vAssert(r.goawayCode == code, "C08.seq.goaway-code")
		}
		if got == rxStreamErr && code != 0 && allowed&rxStreamErr != 0 {
			vAssert(r.rst[id] == code, "C08.seq.rst-code")
		}
		if got == rxResponse {
			vAssert(r.headers[id] == 1 && r.endStream[id] == 1, "C08.seq.one-response-on-the-stream")
		}
		vAssert(len(s.handled) <= ref.dispatch, "C08.seq.dispatch-only-legal-requests")
		if got != rxConnErr && !ref.dead {
			vAssert(len(s.handled) == ref.dispatch, "C08.seq.legal-request-dispatched")
		}
		if got == rxConnErr {
			break
		}
		if got == rxStreamErr && allowed&rxStreamErr != 0 {
			// the stream is closed now
			ref.s[int(id/2)].st = rsClosed
			ref.s[int(id/2)].byUs = true
		}
	}
	// release the handlers that are still running; nothing may go wrong then
	for range s.handled {
		s.gate <- struct{}{}
	}
	vSettle()
	late := vClassify(s.replies())
	if !ref.dead {
		vAssert(!late.goaway, "C08.seq.no-late-connection-error")
	}
	vPoolsSane("C08.seq")
	vCover("C08.seq.two-requests", len(s.handled) == 2)
	vCover("C08.seq.continuation", len(s.handled) == 1 && ref.sawCont)
	vCover("C08.seq.held", ref.hold && len(s.handled) == 1 && late.headers[1] == 1)
}

// One frame of every type 0x0..0xa (0xa is not defined) with a payload of the
// right shape, on stream 0 or on stream 5 (idle), after one request has been
// served on stream 1: frame types that belong to a stream are a connection
// error of type PROTOCOL_ERROR on stream 0, connection-level types are one on
// a stream, PUSH_PROMISE from a client always is (RFC 7540 6.1-6.10, 8.2); an
// unknown type is ignored (4.1) and the next request is served. GOAWAY from the
// client is legal on stream 0 and does not stop what is in progress.
//
//verif:harness prop=C08,C10 unwind=64 timeout=600
func VerifH_C08_zero() {
	s := vStartServer(8)
	s.send(vFrame(0x1, 0x5, 1, vReqBlock('1')))
	s.replies()
	typ := byte(vRange(0, 10))
	onZero := vBool()
	id := uint32(5)
	if onZero {
		id = 0
	}
	var pl []byte
	flags := byte(0)
	switch typ {
	case 0x0:
		pl = []byte("x")
	case 0x1:
		pl, flags = vReqBlock('5'), 0x5
	case 0x2:
		pl = []byte{0, 0, 0, 1, 7}
	case 0x3:
		pl = []byte{0, 0, 0, 8}
	case 0x4:
		pl = nil
	case 0x5:
		pl, flags = append([]byte{0, 0, 0, 2}, vReqBlock('p')...), 0x4
	case 0x6:
		pl = []byte{1, 2, 3, 4, 5, 6, 7, 8}
	case 0x7:
		pl = []byte{0, 0, 0, 1, 0, 0, 0, 0}
	case 0x8:
		pl = []byte{0, 0, 0, 1}
	case 0x9:
		pl, flags = nil, 0x4
	default:
		pl = []byte{1, 2, 3}
	}
	s.send(vFrame(typ, flags, id, pl))
	r := vClassify(s.replies())
	vNote(fmt.Sprintf("type %d on stream %d: goaway=%v/%d rst=%v headers=%v", typ, id, r.goaway, r.goawayCode, r.rst, r.headers))
	mustFail := false
	switch typ {
	case 0x0, 0x1, 0x2, 0x3, 0x9: // stream frames
		mustFail = onZero
		if typ == 0x0 || typ == 0x3 || typ == 0x9 {
			mustFail = true // also on an idle stream (5.1), and CONTINUATION out of place (6.10)
		}
	case 0x8:
		mustFail = !onZero // fine for the connection; on an idle stream it is not (5.1)
	case 0x4, 0x6, 0x7: // connection frames
		mustFail = !onZero
	case 0x5:
		mustFail = true
	}
	if mustFail {
		vAssert(r.goaway, "C08.zero.connection-error")
		if r.goaway {
			vAssert(r.goawayCode == ProtocolError, "C08.zero.protocol-error")
		}
		return
	}
	vAssert(!r.goaway && len(r.rst) == 0, "C08.zero.legal-frame-is-no-error")
	if typ == 0x1 {
		vAssert(r.headers[5] == 1, "C08.zero.request-served")
		return
	}
	if typ == 0x7 {
		return // the client is going away: nothing more is owed
	}
	// the connection is as good as before
	s.send(vFrame(0x1, 0x5, 7, vReqBlock('7')))
	r = vClassify(s.replies())
	vAssert(!r.goaway && r.headers[7] == 1 && r.endStream[7] == 1, "C08.zero.next-request-served")
	vCover("C08.zero.unknown-type-ignored", typ == 0xa)
}
