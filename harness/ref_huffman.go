package http2

// Reference Huffman codec written from RFC 7541 section 5.2 and Appendix B
// over refHuffCode/refHuffLen. Both functions are branch-free in their inputs
// (vIte64/vAnd/vOr), so the symbolic executor runs them on one path.

// refHuffDecode decodes at most 8 input bytes. ok is false when the input is
// not a sequence of complete codes followed by at most 7 one-bits of padding.
func refHuffDecode(in []byte) (out [16]byte, cnt int, ok bool) {
	var buf uint64
	for i, b := range in {
		buf |= uint64(b) << uint(56-8*i)
	}
	r := uint64(8 * len(in)) // bits not yet consumed
	alive := true
	steps := 8 * len(in) / 5
	for step := 0; step < steps; step++ {
		found := false
		var fsym, flen uint64
		for sym := 0; sym < 256; sym++ {
			l := uint64(refHuffLen[sym])
			m := vAnd(l <= r, buf>>(64-l) == uint64(refHuffCode[sym]))
			found = vOr(found, m)
			fsym = vIte64(m, uint64(sym), fsym)
			flen = vIte64(m, l, flen)
		}
		take := vAnd(alive, found)
		out[step] = byte(vIte64(take, fsym, 0))
		cnt = int(vIte64(take, uint64(cnt+1), uint64(cnt)))
		buf = vIte64(take, buf<<flen, buf)
		r = vIte64(take, r-flen, r)
		alive = take
	}
	// what is left is padding: fewer than 8 bits, all ones (an EOS prefix)
	ok = vAnd(r < 8, buf>>(64-r) == (uint64(1)<<r)-1)
	return out, cnt, ok
}

// refHuffEncode encodes at most 4 symbols (at most 120 bits) into out[:n].
func refHuffEncode(s []byte) (out [16]byte, n int) {
	var hi, lo, total uint64
	for _, b := range s {
		l := uint64(refHuffLen[b])
		c := uint64(refHuffCode[b])
		hi = hi<<l | lo>>(64-l)
		lo = lo<<l | c
		total += l
	}
	nbytes := (total + 7) / 8
	pad := nbytes*8 - total
	hi = hi<<pad | lo>>(64-pad)
	lo = lo<<pad | (uint64(1)<<pad - 1)
	for i := 0; i < 16; i++ {
		sh := (nbytes - 1 - uint64(i)) * 8
		out[i] = byte(vIte64(sh < 64, lo>>sh|hi<<(64-sh), hi>>(sh-64)))
	}
	return out, int(nbytes)
}
