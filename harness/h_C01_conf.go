package http2

import (
	"crypto/tls"

	"github.com/valyala/fasthttp"
)

//verif:replace (*github.com/valyala/fasthttp.Server).NextProto
func vStubServerNextProto(s *fasthttp.Server, key string, nph fasthttp.ServeHandler) {}

// A server set up through either public entry point, ConfigureServer with a
// zero ServerConfig or ConfigureServerAndConfig, serves a connection: the
// preface, SETTINGS and one request go in, the handler runs once and its
// response comes back; the limits in force are the documented defaults
// (MaxConcurrentStreams and MaxHeaderListSize are not zero).
//
//verif:harness prop=C01,C13 unwind=300 timeout=600
func VerifH_C01_configured() {
	srv := &fasthttp.Server{}
	handled := 0
	srv.Handler = func(ctx *fasthttp.RequestCtx) {
		handled++
		ctx.Response.SetStatusCode(200)
	}
	var s2 *Server
	if vBool() {
		s2 = ConfigureServer(srv, ServerConfig{})
	} else {
		s2 = ConfigureServerAndConfig(srv, &tls.Config{})
	}
	conn := &vConn{in: make(chan []byte, 4), done: make(chan struct{})}
	conn.w.failAt = -1
	result := make(chan error, 1)
	go func() { result <- s2.ServeConn(conn) }()
	wire := []byte(http2Preface)
	wire = append(wire, vFrame(0x4, 0x0, 0, nil)...)
	wire = append(wire, vFrame(0x1, 0x5, 1, vReqBlock('1'))...)
	conn.in <- wire
	vSettle()
	answered, refused := false, false
	for b := conn.w.out; len(b) >= 9; {
		f, used, st := refParseFrame(b, 0)
		if st != refFrOK {
			break
		}
		if f.typ == 0x1 && f.stream == 1 {
			answered = true
		}
		if f.typ == 0x3 || f.typ == 0x7 {
			refused = true
		}
		b = b[used:]
	}
	vAssert(handled == 1 && answered && !refused, "C01.configured.request-served")
	vAssert(s2.cnf.MaxConcurrentStreams > 0, "C01.configured.concurrent-streams-default")
	vAssert(s2.cnf.MaxHeaderListSize != 0, "C01.configured.header-list-default")
	close(conn.in)
	vSettle()
	vCover("C01.configured.served", handled == 1)
}
