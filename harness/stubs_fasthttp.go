package http2

import (
	"bytes"
	"io"
	"iter"
	"net"

	"github.com/valyala/fasthttp"
)

// Recording models of the fasthttp methods that package http2 calls. Each
// object (RequestHeader, Request, URI, Response, ResponseHeader) gets a ghost
// record; setters store into it and getters return what was stored, which is
// the documented behaviour the package relies on. They replace the real
// methods only under the symbolic executor; native replay runs real fasthttp.

type vGhostT struct {
	method, uri, host, ua, ct, scheme, body, proto []byte
	keys, vals                                      [][]byte
	uriObj                                          *fasthttp.URI
	status                                          int
	contentLength                                   int
	bodyStream                                      io.Reader
	closedStream                                    int
	resets                                          int
}

// vGhostOf returns the ghost record of the object p points to (executor
// intrinsic; never called natively).
func vGhostOf(p any) *vGhostT { panic("vGhostOf is only available under the symbolic executor") }

func vCopy(b []byte) []byte { return append([]byte(nil), b...) }

//verif:replace (*github.com/valyala/fasthttp.RequestHeader).SetMethodBytes
func vStubRqhSetMethodBytes(h *fasthttp.RequestHeader, v []byte) { vGhostOf(h).method = vCopy(v) }

//verif:replace (*github.com/valyala/fasthttp.RequestHeader).Method
func vStubRqhMethod(h *fasthttp.RequestHeader) []byte {
	g := vGhostOf(h)
	if len(g.method) == 0 {
		return []byte("GET")
	}
	return g.method
}

//verif:replace (*github.com/valyala/fasthttp.RequestHeader).SetRequestURIBytes
func vStubRqhSetRequestURIBytes(h *fasthttp.RequestHeader, v []byte) { vGhostOf(h).uri = vCopy(v) }

//verif:replace (*github.com/valyala/fasthttp.RequestHeader).RequestURI
func vStubRqhRequestURI(h *fasthttp.RequestHeader) []byte { return vGhostOf(h).uri }

//verif:replace (*github.com/valyala/fasthttp.RequestHeader).SetHostBytes
func vStubRqhSetHostBytes(h *fasthttp.RequestHeader, v []byte) { vGhostOf(h).host = vCopy(v) }

//verif:replace (*github.com/valyala/fasthttp.RequestHeader).Host
func vStubRqhHost(h *fasthttp.RequestHeader) []byte { return vGhostOf(h).host }

//verif:replace (*github.com/valyala/fasthttp.RequestHeader).SetUserAgentBytes
func vStubRqhSetUserAgentBytes(h *fasthttp.RequestHeader, v []byte) { vGhostOf(h).ua = vCopy(v) }

//verif:replace (*github.com/valyala/fasthttp.RequestHeader).UserAgent
func vStubRqhUserAgent(h *fasthttp.RequestHeader) []byte { return vGhostOf(h).ua }

// SetContentTypeBytes is a method of the unexported struct that RequestHeader
// embeds; the executor passes that embedded struct's address, which is all
// the model needs (a ghost record per object).
//
//verif:replace (*github.com/valyala/fasthttp.header).SetContentTypeBytes
func vStubRqhSetContentTypeBytes(h *fasthttp.RequestHeader, v []byte) { vGhostOf(h).ct = vCopy(v) }

//verif:replace (*github.com/valyala/fasthttp.RequestHeader).ContentType
func vStubRqhContentType(h *fasthttp.RequestHeader) []byte { return vGhostOf(h).ct }

//verif:replace (*github.com/valyala/fasthttp.RequestHeader).SetProtocolBytes
func vStubRqhSetProtocolBytes(h *fasthttp.RequestHeader, v []byte) { vGhostOf(h).proto = vCopy(v) }

//verif:replace (*github.com/valyala/fasthttp.RequestHeader).AddBytesKV
func vStubRqhAddBytesKV(h *fasthttp.RequestHeader, k, v []byte) {
	g := vGhostOf(h)
	g.keys = append(g.keys, vCopy(k))
	g.vals = append(g.vals, vCopy(v))
}

//verif:replace (*github.com/valyala/fasthttp.RequestHeader).AddBytesV
func vStubRqhAddBytesV(h *fasthttp.RequestHeader, k string, v []byte) {
	g := vGhostOf(h)
	g.keys = append(g.keys, []byte(k))
	g.vals = append(g.vals, vCopy(v))
}

//verif:replace (*github.com/valyala/fasthttp.Request).URI
func vStubReqURI(r *fasthttp.Request) *fasthttp.URI {
	g := vGhostOf(r)
	if g.uriObj == nil {
		g.uriObj = &fasthttp.URI{}
	}
	return g.uriObj
}

//verif:replace (*github.com/valyala/fasthttp.URI).SetSchemeBytes
func vStubURISetSchemeBytes(u *fasthttp.URI, v []byte) { vGhostOf(u).scheme = vCopy(v) }

//verif:replace (*github.com/valyala/fasthttp.URI).Scheme
func vStubURIScheme(u *fasthttp.URI) []byte { return vGhostOf(u).scheme }

//verif:replace (*github.com/valyala/fasthttp.Request).AppendBody
func vStubReqAppendBody(r *fasthttp.Request, p []byte) {
	g := vGhostOf(r)
	g.body = append(g.body, p...)
}

//verif:replace (*github.com/valyala/fasthttp.Request).Body
func vStubReqBody(r *fasthttp.Request) []byte { return vGhostOf(r).body }

//verif:replace (*github.com/valyala/fasthttp.Request).Reset
func vStubReqReset(r *fasthttp.Request) { vGhostOf(r).resets++ }

//verif:replace (*github.com/valyala/fasthttp.Response).CloseBodyStream
func vStubRespCloseBodyStream(r *fasthttp.Response) error {
	vGhostOf(r).closedStream++
	return nil
}

//verif:replace (*github.com/valyala/fasthttp.Request).CloseBodyStream
func vStubReqCloseBodyStream(r *fasthttp.Request) error {
	vGhostOf(r).closedStream++
	return nil
}

//verif:replace (*github.com/valyala/fasthttp.Response).AppendBody
func vStubRespAppendBody(r *fasthttp.Response, p []byte) {
	g := vGhostOf(r)
	g.body = append(g.body, p...)
}

// ---- response side ----

//verif:replace (*github.com/valyala/fasthttp.RequestCtx).Init2
func vStubCtxInit2(ctx *fasthttp.RequestCtx, conn net.Conn, logger fasthttp.Logger, reduce bool) {}

//verif:replace (*github.com/valyala/fasthttp.Response).Reset
func vStubRespReset(r *fasthttp.Response) {
	g := vGhostOf(r)
	g.body, g.bodyStream, g.resets = nil, nil, g.resets+1
	h := vGhostOf(&r.Header)
	h.status, h.contentLength, h.keys, h.vals = 0, 0, nil, nil
}

//verif:replace (*github.com/valyala/fasthttp.Response).SetStatusCode
func vStubRespSetStatusCode(r *fasthttp.Response, code int) { vGhostOf(&r.Header).status = code }

//verif:replace (*github.com/valyala/fasthttp.Response).StatusCode
func vStubRespStatusCode(r *fasthttp.Response) int { return vStubRshStatusCode(&r.Header) }

//verif:replace (*github.com/valyala/fasthttp.ResponseHeader).SetStatusCode
func vStubRshSetStatusCode(h *fasthttp.ResponseHeader, code int) { vGhostOf(h).status = code }

//verif:replace (*github.com/valyala/fasthttp.ResponseHeader).StatusCode
func vStubRshStatusCode(h *fasthttp.ResponseHeader) int {
	if c := vGhostOf(h).status; c != 0 {
		return c
	}
	return 200
}

//verif:replace (*github.com/valyala/fasthttp.ResponseHeader).SetContentLength
func vStubRshSetContentLength(h *fasthttp.ResponseHeader, n int) { vGhostOf(h).contentLength = n }

//verif:replace (*github.com/valyala/fasthttp.ResponseHeader).ContentLength
func vStubRshContentLength(h *fasthttp.ResponseHeader) int { return vGhostOf(h).contentLength }

//verif:replace (*github.com/valyala/fasthttp.ResponseHeader).Del
func vStubRshDel(h *fasthttp.ResponseHeader, key string) {
	g := vGhostOf(h)
	var ks, vs [][]byte
	for i := range g.keys {
		if !bytes.EqualFold(g.keys[i], []byte(key)) {
			ks, vs = append(ks, g.keys[i]), append(vs, g.vals[i])
		}
	}
	g.keys, g.vals = ks, vs
}

//verif:replace (*github.com/valyala/fasthttp.ResponseHeader).Set
func vStubRshSet(h *fasthttp.ResponseHeader, key, value string) {
	g := vGhostOf(h)
	g.keys, g.vals = append(g.keys, []byte(key)), append(g.vals, []byte(value))
}

//verif:replace (*github.com/valyala/fasthttp.ResponseHeader).AddBytesKV
func vStubRshAddBytesKV(h *fasthttp.ResponseHeader, k, v []byte) {
	g := vGhostOf(h)
	g.keys, g.vals = append(g.keys, vCopy(k)), append(g.vals, vCopy(v))
}

// All yields the fields that were set, in order (the real method also yields
// Content-Type, Server, Date and Content-Length lines that fasthttp adds by
// itself; harnesses compare only the fields the handler set).
//
//verif:replace (*github.com/valyala/fasthttp.ResponseHeader).All
func vStubRshAll(h *fasthttp.ResponseHeader) iter.Seq2[[]byte, []byte] {
	g := vGhostOf(h)
	return func(yield func([]byte, []byte) bool) {
		for i := range g.keys {
			if !yield(g.keys[i], g.vals[i]) {
				return
			}
		}
	}
}

//verif:replace (*github.com/valyala/fasthttp.Response).SetBody
func vStubRespSetBody(r *fasthttp.Response, b []byte) { vGhostOf(r).body = vCopy(b) }

//verif:replace (*github.com/valyala/fasthttp.Response).Body
func vStubRespBody(r *fasthttp.Response) []byte { return vGhostOf(r).body }

//verif:replace (*github.com/valyala/fasthttp.Response).IsBodyStream
func vStubRespIsBodyStream(r *fasthttp.Response) bool { return vGhostOf(r).bodyStream != nil }

//verif:replace (*github.com/valyala/fasthttp.Response).BodyStream
func vStubRespBodyStream(r *fasthttp.Response) io.Reader { return vGhostOf(r).bodyStream }

//verif:replace (*github.com/valyala/fasthttp.Response).SetBodyStream
func vStubRespSetBodyStream(r *fasthttp.Response, s io.Reader, size int) {
	vGhostOf(r).bodyStream = s
	vGhostOf(&r.Header).contentLength = size
}

//verif:replace (*github.com/valyala/fasthttp.RequestHeader).Peek
func vStubRqhPeek(h *fasthttp.RequestHeader, key string) []byte {
	g := vGhostOf(h)
	for i := range g.keys {
		if bytes.EqualFold(g.keys[i], []byte(key)) {
			return g.vals[i]
		}
	}
	return nil
}

//verif:replace (*github.com/valyala/fasthttp.ResponseHeader).Peek
func vStubRshPeek(h *fasthttp.ResponseHeader, key string) []byte {
	g := vGhostOf(h)
	for i := range g.keys {
		if bytes.EqualFold(g.keys[i], []byte(key)) {
			return g.vals[i]
		}
	}
	return nil
}

// ---- request side, as the client uses it ----

//verif:replace (*github.com/valyala/fasthttp.RequestHeader).SetMethod
func vStubRqhSetMethod(h *fasthttp.RequestHeader, m string) { vGhostOf(h).method = []byte(m) }

//verif:replace (*github.com/valyala/fasthttp.RequestHeader).Set
func vStubRqhSet(h *fasthttp.RequestHeader, k, v string) {
	g := vGhostOf(h)
	g.keys, g.vals = append(g.keys, []byte(k)), append(g.vals, []byte(v))
}

//verif:replace (*github.com/valyala/fasthttp.RequestHeader).ContentLength
func vStubRqhContentLength(h *fasthttp.RequestHeader) int { return vGhostOf(h).contentLength }

//verif:replace (*github.com/valyala/fasthttp.RequestHeader).SetContentLength
func vStubRqhSetContentLength(h *fasthttp.RequestHeader, n int) { vGhostOf(h).contentLength = n }

//verif:replace (*github.com/valyala/fasthttp.RequestHeader).All
func vStubRqhAll(h *fasthttp.RequestHeader) iter.Seq2[[]byte, []byte] {
	g := vGhostOf(h)
	return func(yield func([]byte, []byte) bool) {
		for i := range g.keys {
			if !yield(g.keys[i], g.vals[i]) {
				return
			}
		}
	}
}

//verif:replace (*github.com/valyala/fasthttp.URI).SetHost
func vStubURISetHost(u *fasthttp.URI, h string) { vGhostOf(u).host = []byte(h) }

//verif:replace (*github.com/valyala/fasthttp.URI).Host
func vStubURIHost(u *fasthttp.URI) []byte { return vGhostOf(u).host }

//verif:replace (*github.com/valyala/fasthttp.URI).SetPath
func vStubURISetPath(u *fasthttp.URI, p string) { vGhostOf(u).uri = []byte(p) }

//verif:replace (*github.com/valyala/fasthttp.URI).RequestURI
func vStubURIRequestURI(u *fasthttp.URI) []byte { return vGhostOf(u).uri }

//verif:replace (*github.com/valyala/fasthttp.URI).SetScheme
func vStubURISetScheme(u *fasthttp.URI, s string) { vGhostOf(u).scheme = []byte(s) }

//verif:replace (*github.com/valyala/fasthttp.Request).SetBody
func vStubReqSetBody(r *fasthttp.Request, b []byte) { vGhostOf(r).body = vCopy(b) }

//verif:replace (*github.com/valyala/fasthttp.Request).IsBodyStream
func vStubReqIsBodyStream(r *fasthttp.Request) bool { return vGhostOf(r).bodyStream != nil }

//verif:replace (*github.com/valyala/fasthttp.Request).SetBodyStream
func vStubReqSetBodyStream(r *fasthttp.Request, s io.Reader, size int) {
	vGhostOf(r).bodyStream = s
	vGhostOf(&r.Header).contentLength = size
}

//verif:replace (*github.com/valyala/fasthttp.Request).BodyStream
func vStubReqBodyStream(r *fasthttp.Request) io.Reader { return vGhostOf(r).bodyStream }

