package http2

import (
	"io"

	"github.com/valyala/fasthttp"
)

// Recording models of the fasthttp methods that package http2 calls. Each
// object (RequestHeader, Request, URI, Response, ResponseHeader) gets a ghost
// record; setters store into it and getters return what was stored, which is
// the documented behaviour the package relies on. They replace the real
// methods only under the symbolic executor; native replay runs real fasthttp.

type vGhostT struct {
	method, uri, host, ua, ct, scheme, body, proto []byte
	keys, vals                                      [][]byte
	uriObj                                          *fasthttp.URI
	status                                          int
	contentLength                                   int
	bodyStream                                      io.Reader
	closedStream                                    int
	resets                                          int
}

// vGhostOf returns the ghost record of the object p points to (executor
// intrinsic; never called natively).
func vGhostOf(p any) *vGhostT { panic("vGhostOf is only available under the symbolic executor") }

func vCopy(b []byte) []byte { return append([]byte(nil), b...) }

//verif:replace (*github.com/valyala/fasthttp.RequestHeader).SetMethodBytes
func vStubRqhSetMethodBytes(h *fasthttp.RequestHeader, v []byte) { vGhostOf(h).method = vCopy(v) }

//verif:replace (*github.com/valyala/fasthttp.RequestHeader).Method
func vStubRqhMethod(h *fasthttp.RequestHeader) []byte {
	g := vGhostOf(h)
	if len(g.method) == 0 {
		return []byte("GET")
	}
	return g.method
}

//verif:replace (*github.com/valyala/fasthttp.RequestHeader).SetRequestURIBytes
func vStubRqhSetRequestURIBytes(h *fasthttp.RequestHeader, v []byte) { vGhostOf(h).uri = vCopy(v) }

//verif:replace (*github.com/valyala/fasthttp.RequestHeader).RequestURI
func vStubRqhRequestURI(h *fasthttp.RequestHeader) []byte { return vGhostOf(h).uri }

//verif:replace (*github.com/valyala/fasthttp.RequestHeader).SetHostBytes
func vStubRqhSetHostBytes(h *fasthttp.RequestHeader, v []byte) { vGhostOf(h).host = vCopy(v) }

//verif:replace (*github.com/valyala/fasthttp.RequestHeader).Host
func vStubRqhHost(h *fasthttp.RequestHeader) []byte { return vGhostOf(h).host }

//verif:replace (*github.com/valyala/fasthttp.RequestHeader).SetUserAgentBytes
func vStubRqhSetUserAgentBytes(h *fasthttp.RequestHeader, v []byte) { vGhostOf(h).ua = vCopy(v) }

//verif:replace (*github.com/valyala/fasthttp.RequestHeader).UserAgent
func vStubRqhUserAgent(h *fasthttp.RequestHeader) []byte { return vGhostOf(h).ua }

//verif:replace (*github.com/valyala/fasthttp.RequestHeader).SetContentTypeBytes
func vStubRqhSetContentTypeBytes(h *fasthttp.RequestHeader, v []byte) { vGhostOf(h).ct = vCopy(v) }

//verif:replace (*github.com/valyala/fasthttp.RequestHeader).ContentType
func vStubRqhContentType(h *fasthttp.RequestHeader) []byte { return vGhostOf(h).ct }

//verif:replace (*github.com/valyala/fasthttp.RequestHeader).SetProtocolBytes
func vStubRqhSetProtocolBytes(h *fasthttp.RequestHeader, v []byte) { vGhostOf(h).proto = vCopy(v) }

//verif:replace (*github.com/valyala/fasthttp.RequestHeader).AddBytesKV
func vStubRqhAddBytesKV(h *fasthttp.RequestHeader, k, v []byte) {
	g := vGhostOf(h)
	g.keys = append(g.keys, vCopy(k))
	g.vals = append(g.vals, vCopy(v))
}

//verif:replace (*github.com/valyala/fasthttp.RequestHeader).AddBytesV
func vStubRqhAddBytesV(h *fasthttp.RequestHeader, k string, v []byte) {
	g := vGhostOf(h)
	g.keys = append(g.keys, []byte(k))
	g.vals = append(g.vals, vCopy(v))
}

//verif:replace (*github.com/valyala/fasthttp.Request).URI
func vStubReqURI(r *fasthttp.Request) *fasthttp.URI {
	g := vGhostOf(r)
	if g.uriObj == nil {
		g.uriObj = &fasthttp.URI{}
	}
	return g.uriObj
}

//verif:replace (*github.com/valyala/fasthttp.URI).SetSchemeBytes
func vStubURISetSchemeBytes(u *fasthttp.URI, v []byte) { vGhostOf(u).scheme = vCopy(v) }

//verif:replace (*github.com/valyala/fasthttp.URI).Scheme
func vStubURIScheme(u *fasthttp.URI) []byte { return vGhostOf(u).scheme }

//verif:replace (*github.com/valyala/fasthttp.Request).AppendBody
func vStubReqAppendBody(r *fasthttp.Request, p []byte) {
	g := vGhostOf(r)
	g.body = append(g.body, p...)
}

//verif:replace (*github.com/valyala/fasthttp.Request).Body
func vStubReqBody(r *fasthttp.Request) []byte { return vGhostOf(r).body }

//verif:replace (*github.com/valyala/fasthttp.Request).Reset
func vStubReqReset(r *fasthttp.Request) { vGhostOf(r).resets++ }

//verif:replace (*github.com/valyala/fasthttp.Response).CloseBodyStream
func vStubRespCloseBodyStream(r *fasthttp.Response) error {
	vGhostOf(r).closedStream++
	return nil
}

//verif:replace (*github.com/valyala/fasthttp.Request).CloseBodyStream
func vStubReqCloseBodyStream(r *fasthttp.Request) error {
	vGhostOf(r).closedStream++
	return nil
}

//verif:replace (*github.com/valyala/fasthttp.Response).AppendBody
func vStubRespAppendBody(r *fasthttp.Response, p []byte) {
	vGhostOf(r).contentLength += len(p)
}
