package http2

import (
	"bufio"
	"io"

	"github.com/valyala/fasthttp"
)

// vGateReader is a response body stream whose first Read waits until the
// harness lets it go: the stream loop is inside Read meanwhile.
type vGateReader struct {
	gate chan struct{}
	done bool
}

func (r *vGateReader) Read(p []byte) (int, error) {
	if r.done {
		return 0, io.EOF
	}
	<-r.gate
	r.done = true
	p[0] = 'x'
	return 1, nil
}

// The stream loop is busy (inside the Read of a streamed response body on
// stream 1) while the peer's next request, HEADERS on stream 3, and then a
// frame that is a connection error by itself (WINDOW_UPDATE with a zero
// increment on stream 0, a PING with a stream id, a CONTINUATION out of
// place) arrive: the read loop answers the error with GOAWAY at once, the
// request is still queued. When the stream loop gets to it, it is not
// dispatched unless the GOAWAY's last-stream-id covers it.
//
//verif:harness prop=C10 unwind=300 timeout=600
func VerifH_C10_pipelined() {
	conn := &vConn{in: make(chan []byte, 4), done: make(chan struct{})}
	conn.w.failAt = -1
	rd := &vGateReader{gate: make(chan struct{}, 1)}
	var handled []string
	sc := vNewServerConn()
	sc.c = conn
	sc.br = bufio.NewReaderSize(conn, 256)
	sc.bw = bufio.NewWriterSize(conn, 256)
	sc.st.maxStreams = 8
	sc.maxHeaderList = DefaultMaxHeaderListSize
	sc.pingInterval = -1
	sc.h = func(ctx *fasthttp.RequestCtx) {
		p := string(ctx.Request.Header.RequestURI())
		handled = append(handled, p)
		ctx.Response.SetStatusCode(200)
		if p == "/1" {
			ctx.Response.SetBodyStream(rd, -1)
		}
	}
	result := make(chan error, 1)
	go func() { result <- sc.Serve() }()

	var wire []byte
	wire = append(wire, vFrame(0x4, 0x0, 0, nil)...)
	wire = append(wire, vFrame(0x1, 0x5, 1, vReqBlock('1'))...)
	conn.in <- wire
	vSettle()
	busy := len(handled) == 1

	var bad []byte
	switch vRange(0, 2) {
	case 0:
		bad = vFrame(0x8, 0x0, 0, []byte{0, 0, 0, 0})
	case 1:
		bad = vFrame(0x6, 0x0, 1, []byte{1, 2, 3, 4, 5, 6, 7, 8})
	default:
		bad = vFrame(0x9, 0x4, 3, nil)
	}
	conn.in <- append(vFrame(0x1, 0x5, 3, vReqBlock('3')), bad...)
	vSettle()
	goaway, last := false, uint32(0)
	for b := conn.w.out; len(b) >= 9; {
		f, used, st := refParseFrame(b, 0)
		if st != refFrOK {
			break
		}
		if f.typ == 0x7 {
			goaway, last = true, f.last
		}
		b = b[used:]
	}
	rd.gate <- struct{}{}
	vSettle()
	if goaway {
		for _, p := range handled {
			if p == "/3" {
				vAssert(last >= 3, "C10.pipelined.nothing-above-last-stream-id-is-dispatched")
			}
		}
	}
	close(conn.in)
	vSettle()
	returned := false
	select {
	case <-result:
		returned = true
	default:
	}
	vAssert(returned, "C10.pipelined.serve-returns")
	vCover("C10.pipelined.goaway", goaway && busy)
}
