package http2

// C16 — wire parsers are total. (The read half of C05 is decided by the same
// harness: a frame that parses must parse to the reference reading.)

// vStalePools leaves used objects in the frame pools, the way a long-running
// process has them: a frame header with an old payload and body pointer, and
// one body of every type with old field values.
func vStalePools() {
	fh := &FrameHeader{length: 7, kind: FrameGoAway, flags: FrameFlags(vU8()), stream: vU32(), maxLen: vU32()}
	fh.payload = vBytes(3)
	frameHeaderPool.Put(fh)
	old := vBytes(2)
	framePools[FrameData].Put(&Data{endStream: true, hasPadding: true, b: append([]byte(nil), old...)})
	framePools[FrameHeaders].Put(&Headers{hasPadding: true, stream: vU32(), weight: 9, endStream: true, endHeaders: true, priority: true, rawHeaders: append([]byte(nil), old...)})
	framePools[FramePriority].Put(&Priority{stream: 77, weight: 3})
	framePools[FrameResetStream].Put(&RstStream{code: 5})
	framePools[FrameSettings].Put(&Settings{ack: true, tableSize: 1, enablePush: true, maxStreams: 1, windowSize: 1, frameSize: 1, headerSize: 1, hasWindowSize: true})
	framePools[FramePushPromise].Put(&PushPromise{pad: true, ended: true, stream: 9, header: append([]byte(nil), old...)})
	framePools[FramePing].Put(&Ping{ack: true})
	framePools[FrameGoAway].Put(&GoAway{stream: 9, code: 9, data: append([]byte(nil), old...)})
	framePools[FrameWindowUpdate].Put(&WindowUpdate{increment: 9})
	framePools[FrameContinuation].Put(&Continuation{endHeaders: true, rawHeaders: append([]byte(nil), old...)})
}

// vFrameIs compares what the accessors of a parsed frame return with the
// reference reading of the same bytes.
func vFrameIs(fr *FrameHeader, f *refFrame) bool {
	ok := fr.Len() == int(f.length) && byte(fr.Type()) == f.typ && byte(fr.Flags()) == f.flags && fr.Stream() == f.stream
	switch b := fr.Body().(type) {
	case *Data:
		ok = ok && refBytesEq(b.Data(), f.frag) && b.EndStream() == (f.flags&1 != 0)
	case *Headers:
		ok = ok && refBytesEq(b.Headers(), f.frag) && b.EndStream() == (f.flags&1 != 0) && b.EndHeaders() == (f.flags&4 != 0)
		if f.hasPrio {
			ok = ok && b.Stream() == f.dep && b.Weight() == f.weight
		}
	case *Priority:
		ok = ok && b.Stream() == f.dep && b.Weight() == f.weight
	case *RstStream:
		ok = ok && uint32(b.Code()) == f.code
	case *Settings:
		ok = ok && b.IsAck() == f.ack
	case *PushPromise:
		ok = ok && refBytesEq(b.header, f.frag) && b.stream == f.promise && b.ended == (f.flags&4 != 0)
	case *Ping:
		ok = ok && b.IsAck() == f.ack && refBytesEq(b.Data(), f.ping[:])
	case *GoAway:
		ok = ok && b.Stream() == f.last && uint32(b.Code()) == f.code && refBytesEq(b.Data(), f.debug)
	case *WindowUpdate:
		ok = ok && b.Increment() == int(f.incr)
	case *Continuation:
		ok = ok && refBytesEq(b.Headers(), f.frag) && b.EndHeaders() == (f.flags&4 != 0)
	default:
		ok = false
	}
	return ok
}

// A complete frame of any type byte, any flags, any stream id, declared
// length 0..8 (quick) / 0..14 (thorough) with that many arbitrary payload
// bytes, followed by one more byte, read from pools that hold stale objects,
// with an arbitrary receive limit: ReadFrameFromWithSize fails exactly when
// RFC 7540 makes the frame malformed or too large, skips unknown types,
// otherwise returns exactly the reference reading, and leaves the reader at
// the byte after the frame.
//
//verif:harness prop=C16,C05,C17 unwind=40 timeout=600
func VerifH_C16_frame() {
	vStalePools()
	plen := vRange(0, vPick(8, 14))
	hdr := vBytes(9)
	vAssume(int(hdr[0])<<16|int(hdr[1])<<8|int(hdr[2]) == plen)
	vAssume(hdr[3] <= 10) // 0..9 defined, 10 stands for every undefined type
	payload := vBytes(plen)
	next := vU8()
	max := vU32()
	stream := append(append(append([]byte(nil), hdr...), payload...), next)
	f, used, st := refParseFrame(stream, max)

	br := vNewReader(stream)
	fr, err := ReadFrameFromWithSize(br, max)

	switch st {
	case refFrOK:
		vAssert(err == nil, "C16.frame.rejects-well-formed")
		if err == nil {
			vAssert(vFrameIs(fr, &f), "C16.frame.fields")
		}
	case refFrUnknown:
		vAssert(err == ErrUnknownFrameType, "C16.frame.unknown-type")
	default:
		vAssert(err != nil, "C16.frame.accepts-malformed")
	}
	if st == refFrOK || st == refFrUnknown {
		// positioned at the next frame
		vAssert(used == 9+plen, "C16.frame.ref-used")
		nb, rerr := br.ReadByte()
		vAssert(rerr == nil && nb == next, "C16.frame.position")
	}
	if err != nil {
		vAssert(fr == nil, "C16.frame.nil-on-error")
	}
	vCover("C16.frame.padded-data", st == refFrOK && f.typ == 0 && f.padLen == 2 && len(f.frag) == 1)
	vCover("C16.frame.headers-prio", st == refFrOK && f.typ == 1 && f.hasPrio && f.padLen == 1)
	vCover("C16.frame.goaway", st == refFrOK && f.typ == 7 && len(f.debug) == 0)
	vCover("C16.frame.toolarge", st == refFrSize && max != 0 && uint32(plen) > max)
	vCover("C16.frame.unknown", st == refFrUnknown)
}

// A frame cut off at any byte (the peer disconnects): an error and nil, no
// panic, and nothing is left in a pool twice — afterwards two acquisitions of
// the frame header and of the body type yield different objects.
//
//verif:harness prop=C16 unwind=40 timeout=600
func VerifH_C16_trunc() {
	vStalePools()
	plen := vRange(1, vPick(6, 10))
	hdr := vBytes(9)
	vAssume(int(hdr[0])<<16|int(hdr[1])<<8|int(hdr[2]) == plen)
	kind := vRange(0, 9)
	vAssume(int(hdr[3]) == kind)
	payload := vBytes(plen)
	whole := append(append([]byte(nil), hdr...), payload...)
	cut := vRange(0, len(whole)-1)
	br := vNewReader(whole[:cut])
	fr, err := ReadFrameFromWithSize(br, 0)
	vAssert(err != nil && fr == nil, "C16.trunc.error")
	a, b := AcquireFrameHeader(), AcquireFrameHeader()
	vAssert(a != b, "C16.trunc.frame-header-two-owners")
	x, y := AcquireFrame(FrameType(kind)), AcquireFrame(FrameType(kind))
	vAssert(x != y, "C16.trunc.frame-body-two-owners")
	vCover("C16.trunc.mid-payload", cut == 10)
	vCover("C16.trunc.mid-header", cut == 4)
}

// The receive limit is applied to the declared length before anything is
// read or allocated, for every 24-bit length and every 32-bit limit.
//
//verif:harness prop=C16 unwind=40
func VerifH_C16_limit() {
	hdr := vBytes(9)
	vAssume(hdr[3] <= 9)
	max := vU32()
	length := uint32(hdr[0])<<16 | uint32(hdr[1])<<8 | uint32(hdr[2])
	vAssume(max != 0 && length > max)
	br := vNewReader(hdr)
	fr, err := ReadFrameFromWithSize(br, max)
	vAssert(fr == nil && err != nil, "C16.limit.rejected")
	if e, ok := err.(Error); ok {
		vAssert(e.Code() == FrameSizeError, "C16.limit.code")
	} else {
		vAssert(false, "C16.limit.error-type")
	}
	vCover("C16.limit.big", length == 1<<24-1)
}

// Two frames back to back: the second read starts where the first stopped.
//
//verif:harness prop=C16 unwind=40
func VerifH_C16_two() {
	l1, l2 := vRange(0, 3), vRange(0, 2)
	h1, h2 := vBytes(9), vBytes(9)
	vAssume(int(h1[0])<<16|int(h1[1])<<8|int(h1[2]) == l1 && h1[3] <= 10)
	vAssume(int(h2[0])<<16|int(h2[1])<<8|int(h2[2]) == l2 && h2[3] <= 9)
	p1, p2 := vBytes(l1), vBytes(l2)
	s := append(append(append(append([]byte(nil), h1...), p1...), h2...), p2...)
	_, u1, st1 := refParseFrame(s, 0)
	vAssume(st1 == refFrOK || st1 == refFrUnknown)
	f2, _, st2 := refParseFrame(s[u1:], 0)
	br := vNewReader(s)
	fr1, err1 := ReadFrameFrom(br)
	vAssert((err1 == nil) == (st1 == refFrOK), "C16.two.first")
	if fr1 != nil {
		ReleaseFrameHeader(fr1)
	}
	fr2, err2 := ReadFrameFrom(br)
	vAssert((err2 == nil) == (st2 == refFrOK), "C16.two.second-accept")
	if err2 == nil && st2 == refFrOK {
		vAssert(vFrameIs(fr2, &f2), "C16.two.second-fields")
	}
	vCover("C16.two.both", err1 == nil && err2 == nil)
}

// The default limit of ReadFrameFrom does not depend on who used the pooled
// frame header before: a reader with another limit (any 32-bit value, 0 = no
// limit) reads a PING frame and hands the header back; the next ReadFrameFrom
// refuses a frame whose declared length is 16385, 20000 or 65536 octets with
// FRAME_SIZE_ERROR, before it reads anything of it.
//
//verif:harness prop=C16,C18 unwind=40 timeout=300
func VerifH_C16_poollimit() {
	other := vU32()
	vAssume(other == 0 || other >= 8)
	ping := vFrame(0x6, 0x0, 0, []byte{1, 2, 3, 4, 5, 6, 7, 8})
	fr, err := ReadFrameFromWithSize(vNewReader(ping), other)
	vAssert(err == nil, "C16.poollimit.first-read")
	if err == nil {
		ReleaseFrameHeader(fr)
	}
	// (the declared length is one of three values rather than any: a reader
	// that lets the frame through allocates that much)
	length := [3]uint32{16385, 20000, 65536}[vRange(0, 2)]
	hdr := vBytes(9)
	vAssume(hdr[3] <= 9)
	vAssume(hdr[0] == byte(length>>16) && hdr[1] == byte(length>>8) && hdr[2] == byte(length))
	fr, err = ReadFrameFrom(vNewReader(hdr))
	vAssert(fr == nil && err != nil, "C16.poollimit.default-limit-in-force")
	if e, ok := err.(Error); ok {
		vAssert(e.Code() == FrameSizeError, "C16.poollimit.code")
	} else {
		vAssert(false, "C16.poollimit.error-type")
	}
	vCover("C16.poollimit.after-a-larger-limit", other > 1<<20)
}
