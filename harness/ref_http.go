package http2

// Reference automaton for RFC 7540 section 8.1.2 (request header lists). It
// is written branch-free over the field bytes so that it runs on one path.

type refReqState struct {
	method, scheme, path, authority bool
	regular                         bool
	hasCL                           bool
	cl                              uint64
}

func refEqStr(b []byte, s string) bool {
	if len(b) != len(s) {
		return false
	}
	r := true
	for i := 0; i < len(s); i++ {
		r = vAnd(r, b[i] == s[i])
	}
	return r
}

func refHasUpper(b []byte) bool {
	r := false
	for _, c := range b {
		r = vOr(r, vAnd(c >= 'A', c <= 'Z'))
	}
	return r
}

// refDecimal parses a non-empty string of digits; ok=false for anything else
// or a value above 2^62.
func refDecimal(b []byte) (v uint64, ok bool) {
	if len(b) == 0 {
		return 0, false
	}
	ok = true
	for _, c := range b {
		d := vAnd(c >= '0', c <= '9')
		ok = vAnd(ok, d)
		ok = vAnd(ok, v <= (1<<62)/10-1)
		v = v*10 + uint64(c-'0')
	}
	return v, ok
}

// refReqStep: one field of a request header block. wellFormed=false means the
// request is malformed (RFC 7540 8.1.2.6) from this field on. dupAuthority is
// set when the only objection is a second :authority, which the RFC does not
// rule on.
func refReqStep(s refReqState, name, value []byte) (n refReqState, wellFormed bool, dupAuthority bool) {
	n = s
	pseudo := len(name) > 0 && name[0] == ':'
	upper := refHasUpper(name)
	isMethod, isScheme := refEqStr(name, ":method"), refEqStr(name, ":scheme")
	isPath, isAuth := refEqStr(name, ":path"), refEqStr(name, ":authority")
	known := vOr(vOr(isMethod, isScheme), vOr(isPath, isAuth))
	dup := vOr(vOr(vAnd(isMethod, s.method), vAnd(isScheme, s.scheme)), vAnd(isPath, s.path))
	dupAuthority = vAnd(isAuth, s.authority)
	connSpecific := vOr(vOr(refEqStr(name, "connection"), refEqStr(name, "keep-alive")),
		vOr(vOr(refEqStr(name, "proxy-connection"), refEqStr(name, "transfer-encoding")), refEqStr(name, "upgrade")))
	badTE := vAnd(refEqStr(name, "te"), !refEqStr(value, "trailers"))
	isCL := refEqStr(name, "content-length")
	clv, clok := refDecimal(value)
	badCL := vAnd(isCL, !clok)

	pseudoOK := vAnd(vAnd(known, !dup), !s.regular)
	regularOK := vAnd(vAnd(!connSpecific, !badTE), !badCL)
	wellFormed = vAnd(!upper, vOr(vAnd(pseudo, pseudoOK), vAnd(!pseudo, regularOK)))

	n.method = vOr(s.method, isMethod)
	n.scheme = vOr(s.scheme, isScheme)
	n.path = vOr(s.path, isPath)
	n.authority = vOr(s.authority, isAuth)
	n.regular = vOr(s.regular, !pseudo)
	n.hasCL = vOr(s.hasCL, isCL)
	n.cl = vIte64(isCL, clv, s.cl)
	return n, wellFormed, dupAuthority
}

// refIsTchar: RFC 7230 3.2.6 token characters. Branch-free.
func refIsTchar(c byte) bool {
	r := vOr(vAnd(c >= 'a', c <= 'z'), vOr(vAnd(c >= 'A', c <= 'Z'), vAnd(c >= '0', c <= '9')))
	for _, s := range []byte("!#$%&'*+-.^_`|~") {
		r = vOr(r, c == s)
	}
	return r
}

// refLowerByte lower-cases an ASCII letter and leaves everything else alone.
func refLowerByte(c byte) byte {
	return byte(vIte64(vAnd(c >= 'A', c <= 'Z'), uint64(c)+32, uint64(c)))
}
