package http2

// Reference frame parser written from RFC 7540 sections 4.1, 4.2 and 6.1-6.10.
// It shares no code with the repository's frame types.

const (
	refFrOK      = 0
	refFrShort   = 1 // fewer than 9+length bytes available
	refFrSize    = 2 // FRAME_SIZE_ERROR: over the limit, or a fixed-size frame of another size
	refFrProto   = 3 // PROTOCOL_ERROR in the frame's own structure (padding, missing priority/promise fields)
	refFrUnknown = 4 // a type this specification does not define: to be ignored
)

type refFrame struct {
	length  uint32
	typ     byte
	flags   byte
	stream  uint32
	frag    []byte // DATA payload, or header block fragment, without padding and fixed fields
	padLen  int
	hasPrio bool
	excl    bool
	dep     uint32
	weight  byte
	code    uint32
	last    uint32
	debug   []byte
	ack     bool
	npairs  int
	ids     [4]uint16
	vals    [4]uint32
	ping    [8]byte
	incr    uint32
	promise uint32
}

func refU32(b []byte) uint32 {
	return uint32(b[0])<<24 | uint32(b[1])<<16 | uint32(b[2])<<8 | uint32(b[3])
}

// refStripPad removes the Pad Length octet and the padding (RFC 7540 6.1).
func refStripPad(p []byte) (body []byte, pad int, ok bool) {
	if len(p) < 1 {
		return nil, 0, false
	}
	pad = int(p[0])
	if pad > len(p)-1 {
		return nil, 0, false
	}
	return p[1 : len(p)-pad], pad, true
}

// refParseFrame reads one frame from b. max is the receiver's
// SETTINGS_MAX_FRAME_SIZE (0: no limit configured).
func refParseFrame(b []byte, max uint32) (f refFrame, used int, st int) {
	if len(b) < 9 {
		return f, 0, refFrShort
	}
	f.length = uint32(b[0])<<16 | uint32(b[1])<<8 | uint32(b[2])
	f.typ = b[3]
	f.flags = b[4]
	f.stream = refU32(b[5:9]) & 0x7fffffff
	if max != 0 && f.length > max {
		return f, 9, refFrSize
	}
	if uint32(len(b)-9) < f.length {
		return f, 0, refFrShort
	}
	p := b[9 : 9+int(f.length)]
	used = 9 + int(f.length)
	switch f.typ {
	case 0x0: // DATA
		if f.flags&0x8 != 0 {
			body, pad, ok := refStripPad(p)
			if !ok {
				return f, used, refFrProto
			}
			p, f.padLen = body, pad
		}
		f.frag = p
	case 0x1: // HEADERS
		if f.flags&0x8 != 0 {
			body, pad, ok := refStripPad(p)
			if !ok {
				return f, used, refFrProto
			}
			p, f.padLen = body, pad
		}
		if f.flags&0x20 != 0 {
			if len(p) < 5 {
				return f, used, refFrProto
			}
			f.hasPrio = true
			f.excl = p[0]&0x80 != 0
			f.dep = refU32(p) & 0x7fffffff
			f.weight = p[4]
			p = p[5:]
		}
		f.frag = p
	case 0x2: // PRIORITY
		if len(p) != 5 {
			return f, used, refFrSize
		}
		f.excl = p[0]&0x80 != 0
		f.dep = refU32(p) & 0x7fffffff
		f.weight = p[4]
	case 0x3: // RST_STREAM
		if len(p) != 4 {
			return f, used, refFrSize
		}
		f.code = refU32(p)
	case 0x4: // SETTINGS
		f.ack = f.flags&0x1 != 0
		if len(p)%6 != 0 || (f.ack && len(p) != 0) {
			return f, used, refFrSize
		}
		f.npairs = len(p) / 6
		for i := 0; i < f.npairs; i++ {
			id := uint16(p[6*i])<<8 | uint16(p[6*i+1])
			v := refU32(p[6*i+2:])
			// RFC 7540 6.5.2: values outside these ranges are connection errors
			if (id == 2 && v > 1) || (id == 4 && v > 1<<31-1) || (id == 5 && (v < 1<<14 || v > 1<<24-1)) {
				return f, used, refFrProto
			}
			if i < 4 {
				f.ids[i], f.vals[i] = id, v
			}
		}
	case 0x5: // PUSH_PROMISE
		if f.flags&0x8 != 0 {
			body, pad, ok := refStripPad(p)
			if !ok {
				return f, used, refFrProto
			}
			p, f.padLen = body, pad
		}
		if len(p) < 4 {
			return f, used, refFrProto
		}
		f.promise = refU32(p) & 0x7fffffff
		f.frag = p[4:]
	case 0x6: // PING
		if len(p) != 8 {
			return f, used, refFrSize
		}
		f.ack = f.flags&0x1 != 0
		copy(f.ping[:], p)
	case 0x7: // GOAWAY
		if len(p) < 8 {
			return f, used, refFrSize
		}
		f.last = refU32(p) & 0x7fffffff
		f.code = refU32(p[4:])
		f.debug = p[8:]
	case 0x8: // WINDOW_UPDATE
		if len(p) != 4 {
			return f, used, refFrSize
		}
		f.incr = refU32(p) & 0x7fffffff
	case 0x9: // CONTINUATION
		f.frag = p
	default:
		return f, used, refFrUnknown
	}
	return f, used, refFrOK
}
