package http2

import (
	"bufio"
	"io"

	"github.com/valyala/fasthttp"
)

// C18 — SETTINGS are acknowledged in order and the peer's limits are obeyed.

// refSettingsApply is RFC 7540 6.5/6.5.2 over up to 3 entries: the values in
// force after the frame (starting from cur), or the error code.
// code: 0 ok, 1 PROTOCOL_ERROR, 3 FLOW_CONTROL_ERROR, 6 FRAME_SIZE_ERROR.
func refSettingsApply(cur [7]uint32, payload []byte, ack bool) (vals [7]uint32, sawWindow bool, code int) {
	vals = cur
	if len(payload)%6 != 0 || (ack && len(payload) != 0) {
		return vals, false, 6
	}
	for i := 0; i+6 <= len(payload); i += 6 {
		id := uint16(payload[i])<<8 | uint16(payload[i+1])
		v := refU32(payload[i+2:])
		switch id {
		case 2:
			if v > 1 {
				return vals, false, 1
			}
		case 4:
			if v > 1<<31-1 {
				return vals, false, 3
			}
			sawWindow = true
		case 5:
			if v < 1<<14 || v > 1<<24-1 {
				return vals, false, 1
			}
		}
		if id >= 1 && id <= 6 {
			vals[id] = v
		}
	}
	return vals, sawWindow, 0
}

// Settings.Deserialize on a frame with 0..2 (quick) / 0..3 (thorough) arbitrary entries (any ids, any
// values), ACK flag arbitrary, into a Settings that holds arbitrary earlier
// values: the RFC's validation with the RFC's error codes, later entries
// override earlier ones, unknown ids are ignored, absent ones keep their
// value, and hasWindowSize says whether INITIAL_WINDOW_SIZE was present.
//
//verif:harness prop=C18,C06 unwind=16 timeout=300 timeoutT=3000
func VerifH_C18_parse() {
	n := vRange(0, vPick(2, 3))
	extra := vRange(0, 1) // a trailing partial entry
	payload := vBytes(6*n + extra*vRange(1, 5))
	ack := vBool()
	st := &Settings{}
	st.Reset()
	cur := [7]uint32{0, vU32(), 0, vU32(), vU32(), vU32(), vU32()}
	st.tableSize, st.maxStreams, st.windowSize, st.frameSize, st.headerSize = cur[1], cur[3], cur[4], cur[5], cur[6]
	push := vBool()
	st.enablePush = push
	if push {
		cur[2] = 1
	}
	want, sawWin, code := refSettingsApply(cur, payload, ack)

	fr := &FrameHeader{kind: FrameSettings, payload: payload, length: len(payload)}
	if ack {
		fr.flags = fr.flags.Add(FlagAck)
	}
	err := st.Deserialize(fr)

	vAssert((err == nil) == (code == 0), "C18.parse.accept")
	if err != nil {
		e, ok := err.(Error)
		vAssert(ok && e.frameType == FrameGoAway && int(e.Code()) == code, "C18.parse.connection-error-code")
	} else {
		vAssert(st.IsAck() == ack, "C18.parse.ack")
		vAssert(st.tableSize == want[1] && st.maxStreams == want[3] && st.windowSize == want[4] && st.frameSize == want[5] && st.headerSize == want[6], "C18.parse.values")
		vAssert(st.enablePush == (want[2] == 1), "C18.parse.enable-push")
		vAssert(st.hasWindowSize == sawWin, "C18.parse.has-window-size")
	}
	vCover("C18.parse.override", n == 2 && err == nil && payload[1] == 4 && payload[7] == 4 && payload[0] == 0 && payload[6] == 0)
	vCover("C18.parse.unknown-id", n == 1 && err == nil && payload[0] == 0x12)
	vCover("C18.parse.flow-control", code == 3)
}

// What an endpoint advertises is what it enforces. The server's SETTINGS
// (built the way ServeConn builds them, for any MaxConcurrentStreams >= 1 and
// any header-list limit) and the client's (built the way NewConn builds them)
// are serialised and read by the reference parser; every parameter the peer
// will assume - the transmitted value, or the protocol default when the
// parameter is absent - equals the value the endpoint holds itself.
//
//verif:harness prop=C18 unwind=16 timeout=300
func VerifH_C18_emit() {
	var st Settings
	server := vBool()
	var maxStreams, headerList uint32
	if server {
		st.Reset()
		st.SetMaxWindowSize(1 << 22)
		maxStreams = vU32()
		vAssume(maxStreams >= 1)
		st.SetMaxConcurrentStreams(maxStreams)
		headerList = vU32()
		if headerList > 0 {
			st.SetMaxHeaderListSize(headerList)
		}
	} else {
		st.SetMaxWindowSize(1 << 20)
		st.SetPush(false)
	}
	fr := AcquireFrameHeader()
	st2 := &Settings{}
	st.CopyTo(st2)
	fr.SetBody(st2)
	out := vWriteFrame(fr)
	f, _, pst := refParseFrame(out, 0)
	vAssert(pst == refFrOK && f.typ == 4 && !f.ack && f.stream == 0, "C18.emit.well-formed")
	// protocol defaults (RFC 7540 6.5.2); 0 stands for "unlimited" for ids 3 and 6
	def := [7]uint32{0, 4096, 1, 0, 65535, 16384, 0}
	assumed, _, code := refSettingsApply(def, out[9:], false)
	vAssert(code == 0, "C18.emit.valid-values")
	if server {
		vAssert(assumed[3] == maxStreams, "C18.emit.server.max-concurrent-streams")
		vAssert(assumed[4] == 1<<22, "C18.emit.server.initial-window")
		vAssert(assumed[6] == headerList, "C18.emit.server.max-header-list")
		vAssert(assumed[5] == 16384 && assumed[1] == 4096, "C18.emit.server.defaults")
	} else {
		vAssert(assumed[4] == 1<<20, "C18.emit.client.initial-window")
		vAssert(assumed[2] == 0, "C18.emit.client.enable-push-0")
		vAssert(assumed[5] == 16384 && assumed[1] == 4096, "C18.emit.client.defaults")
	}
	vCover("C18.emit.server", server && headerList > 0)
	vCover("C18.emit.client", !server)
}

var vRecordedMax []uint32

// The read loop's receive limit (recorded instead of reading).
//
//verif:stub github.com/dgrr/http2.ReadFrameFromWithSize
func vStubReadFrameFromWithSizeRecord(br *bufio.Reader, max uint32) (*FrameHeader, error) {
	vRecordedMax = append(vRecordedMax, max)
	return nil, io.EOF
}

// The server enforces its own SETTINGS_MAX_FRAME_SIZE on what it receives,
// whatever the client has announced about itself (any value, or nothing yet).
//
//verif:harness prop=C18 unwind=16 use=vStubReadFrameFromWithSizeRecord
func VerifH_C18_limitin() {
	sc := vNewServerConn()
	if vBool() {
		sc.clientS.frameSize = vU32()
	} else {
		sc.clientS = Settings{} // no SETTINGS frame from the client yet
	}
	if !vSymbolic() {
		// native replay: the same fact seen from outside - a DATA frame one
		// octet over the advertised 16384 is refused with FRAME_SIZE_ERROR
		sc.br = vNewReader(vFrame(0x0, 0x0, 1, make([]byte, 16385))[:9])
		err := sc.readLoop()
		r := vClassify(vDrainWriter(sc))
		e, isH2 := err.(Error)
		vAssert((r.goaway && r.goawayCode == FrameSizeError) || (isH2 && e.Code() == FrameSizeError), "C18.limitin.own-advertised-limit")
		vCover("C18.limitin.reached", true)
		return
	}
	vRecordedMax = nil
	_ = sc.readLoop()
	vAssert(len(vRecordedMax) == 1, "C18.limitin.one-read")
	if len(vRecordedMax) == 1 {
		vAssert(vRecordedMax[0] == sc.st.frameSize && sc.st.frameSize == 16384, "C18.limitin.own-advertised-limit")
	}
	vCover("C18.limitin.reached", len(vRecordedMax) == 1)
}

// Every SETTINGS frame gets exactly one ACK, and the peer's values are in
// force afterwards: server side (handleSettings) and client side. The frame is
// decoded from wire bytes in which each of the six parameters is present or
// not, with any legal value; whatever earlier frames announced is arbitrary. A
// parameter the frame carries takes the new value, one it omits keeps the old
// (RFC 7540 6.5.3).
//
//verif:harness prop=C18,C07 unwind=16 timeout=600
func VerifH_C18_ack() {
	var has [7]bool
	var val [7]uint32
	var payload []byte
	for k := 1; k <= 6; k++ {
		has[k], val[k] = vBool(), vU32()
		if has[k] {
			payload = append(payload, 0, byte(k), byte(val[k]>>24), byte(val[k]>>16), byte(val[k]>>8), byte(val[k]))
		}
	}
	vAssume(!has[2] || val[2] <= 1)
	vAssume(!has[4] || val[4] <= 1<<31-1)
	vAssume(!has[5] || (val[5] >= 1<<14 && val[5] <= 1<<24-1))
	st := &Settings{}
	st.Reset()
	vAssert(st.Read(payload) == nil, "C18.ack.legal-values-accepted")
	// what earlier SETTINGS frames of the peer left behind
	prevTable, prevStreams, prevFrame := vU32(), vU32(), vU32()
	pick := func(k int, prev uint32) uint32 {
		if has[k] {
			return val[k]
		}
		return prev
	}
	if vBool() {
		sc := vNewServerConn()
		sc.clientS.Reset()
		sc.clientS.tableSize, sc.clientS.frameSize, sc.clientS.maxStreams = prevTable, prevFrame, prevStreams
		sc.enc.SetMaxTableSize(prevTable)
		sc.handleSettings(st)
		frames := vDrainWriter(sc)
		vAssert(len(frames) == 1, "C18.ack.server.exactly-one")
		if len(frames) == 1 {
			a, ok := frames[0].Body().(*Settings)
			vAssert(ok && a.IsAck() && frames[0].Stream() == 0, "C18.ack.server.is-ack")
		}
		table := pick(1, prevTable)
		vAssert(sc.enc.maxTableSize == table && sc.enc.maxTableSizeSettings == table, "C18.ack.server.table-size-in-force")
		vAssert(sc.enc.DynamicSize() <= table, "C18.ack.server.table-within-limit")
		vAssert(sc.clientS.frameSize == pick(5, prevFrame) && sc.clientS.maxStreams == pick(3, prevStreams), "C18.ack.server.peer-values-kept")
	} else {
		c := vNewConn()
		c.openStreams = int32(vU32())
		vAssume(c.openStreams >= 0)
		c.serverS.tableSize, c.serverS.frameSize, c.serverS.maxStreams = prevTable, prevFrame, prevStreams
		c.maxFrameSize, c.maxStreams, c.encTableSize = prevFrame, prevStreams, prevTable
		c.streamWindow = int32(vU32())
		c.handleSettings(st)
		frames := vDrainOut(c)
		vAssert(len(frames) == 1, "C18.ack.client.exactly-one")
		if len(frames) == 1 {
			a, ok := frames[0].Body().(*Settings)
			vAssert(ok && a.IsAck() && frames[0].Stream() == 0, "C18.ack.client.is-ack")
		}
		streams := pick(3, prevStreams)
		vAssert(c.maxFrameSize == pick(5, prevFrame) && c.maxStreams == streams && c.encTableSize == pick(1, prevTable), "C18.ack.client.peer-values-in-force")
		if has[4] {
			vAssert(c.streamWindow == int32(val[4]), "C18.ack.client.initial-window")
		}
		// no more concurrently open streams than the server allows
		if uint32(c.openStreams) >= streams && streams <= 1<<31-1 {
			vAssert(!c.CanOpenStream(), "C18.ack.client.max-concurrent-streams")
		}
		// and as many as it allows, whatever 32-bit value that is
		if int64(c.openStreams) < int64(streams) {
			vAssert(c.CanOpenStream(), "C18.ack.client.streams-below-the-limit-can-be-opened")
		}
	}
	vCover("C18.ack.omits-some", has[4] && !has[1] && !has[3])
}

// A response whose header block does not fit one frame of the size the peer
// accepts (a 17000-byte header value; SETTINGS_MAX_FRAME_SIZE 16384): through
// the real Serve and its write loop, every frame on the wire is within 16384
// bytes, the header block arrives as HEADERS followed directly by
// CONTINUATION frames with END_HEADERS on the last, and decodes (reference
// decoder) to the fields the handler set. The same for a request written by
// the client's write loop.
//
//verif:harness prop=C18 unwind=300 timeout=900
func VerifH_C18_hdrsize() {
	var out []byte
	server := vBool()
	if server {
		conn := &vConn{in: make(chan []byte, 4), done: make(chan struct{})}
		conn.w.failAt = -1
		sc := vNewServerConn()
		sc.c = conn
		sc.br = bufio.NewReaderSize(conn, 256)
		sc.bw = bufio.NewWriterSize(conn, 256)
		sc.st.maxStreams = 8
		sc.maxHeaderList = DefaultMaxHeaderListSize
		sc.pingInterval = -1
		sc.h = func(ctx *fasthttp.RequestCtx) {
			ctx.Response.SetStatusCode(200)
			ctx.Response.Header.Set("x-big", vBigValue)
		}
		go func() { _ = sc.Serve() }()
		conn.in <- vFrame(0x1, 0x5, 1, vReqBlock('1'))
		vSettle()
		close(conn.in)
		vSettle()
		out = conn.w.out
	} else {
		cl := vStartClient()
		req, res := &fasthttp.Request{}, &fasthttp.Response{}
		req.Header.SetMethod("GET")
		req.URI().SetHost("h")
		req.URI().SetPath("/1")
		req.URI().SetScheme("https")
		req.Header.Set("x-big", vBigValue)
		cl.c.Write(&Ctx{Request: req, Response: res, Err: make(chan error, 1)})
		vSettle()
		out = cl.conn.w.out
	}
	var block []byte
	inBlock, done := false, false
	for len(out) >= 9 {
		f, used, st := refParseFrame(out, 16384)
		vAssert(st == refFrOK, "C18.hdrsize.frame-within-peer-max-frame-size")
		if st != refFrOK {
			return
		}
		out = out[used:]
		switch {
		case f.typ == 0x1 && f.stream == 1:
			vAssert(!inBlock && !done, "C18.hdrsize.one-headers-frame")
			block = append(block, f.frag...)
			inBlock = f.flags&0x4 == 0
			done = !inBlock
		case inBlock:
			vAssert(f.typ == 0x9 && f.stream == 1, "C18.hdrsize.nothing-interleaved-in-the-block")
			block = append(block, f.frag...)
			if f.flags&0x4 != 0 {
				inBlock, done = false, true
			}
		}
	}
	vAssert(done && !inBlock, "C18.hdrsize.block-complete")
	t := &refTable{max: 4096, limit: 4096}
	found := false
	for pos := 0; pos < len(block); {
		fld, upd, used, st := refHpackRep(t, pos == 0, block[pos:])
		vAssert(st == refOK, "C18.hdrsize.valid-header-block")
		if st != refOK {
			return
		}
		pos += used
		if !upd && fld.sidx == 0 && string(fld.name) == "x-big" {
			found = len(fld.value) == len(vBigValue)
		}
	}
	vAssert(found, "C18.hdrsize.field-intact")
	vCover("C18.hdrsize.server", server && found)
	vCover("C18.hdrsize.client", !server && found)
}
