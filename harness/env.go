package http2

import (
	"bufio"
	"io"
)

// vReader is the peer's byte stream: it hands out data in one piece and then
// reports io.EOF.
type vReader struct {
	data []byte
	pos  int
}

func (r *vReader) Read(p []byte) (int, error) {
	if r.pos >= len(r.data) {
		return 0, io.EOF
	}
	n := copy(p, r.data[r.pos:])
	r.pos += n
	return n, nil
}

// vWriter collects what is written to the peer. When failAt >= 0 the write
// that would cross that many bytes fails after writing up to it.
type vWriter struct {
	out    []byte
	failAt int
	failed bool // a Write has returned an error
}

func (w *vWriter) Write(p []byte) (int, error) {
	if w.failAt >= 0 && len(w.out)+len(p) > w.failAt {
		k := w.failAt - len(w.out)
		if k < 0 {
			k = 0
		}
		w.out = append(w.out, p[:k]...)
		w.failed = true
		return k, io.ErrClosedPipe
	}
	w.out = append(w.out, p...)
	return len(p), nil
}

func vNewReader(b []byte) *bufio.Reader { return bufio.NewReaderSize(&vReader{data: b}, 64) }

func vNewWriter() (*bufio.Writer, *vWriter) {
	w := &vWriter{failAt: -1}
	return bufio.NewWriterSize(w, 128), w
}

type vLogger struct{}

func (vLogger) Printf(format string, args ...interface{}) {}

// vNewServerConn builds the connection state the stream loop works on,
// without sockets or goroutines.
func vNewServerConn() *serverConn {
	sc := &serverConn{
		writer:             make(chan *FrameHeader, 128),
		reader:             make(chan *FrameHeader, 128),
		writeStop:          make(chan struct{}),
		logger:             vLogger{},
		maxRequestBodySize: 1 << 20,
		maxWindow:          1 << 22,
		currentWindow:      1 << 22,
		clientWindow:       int64(defaultWindowSize),
	}
	sc.enc.Reset()
	sc.dec.Reset()
	sc.enc.DisableCompression = true
	sc.st.Reset()
	// clientS stays the zero value until the client's first SETTINGS frame,
	// exactly as ServeConn leaves it
	return sc
}

