package http2

// Reference HPACK decoder written from RFC 7541 (sections 2.3, 4, 5, 6). It
// shares no code with the repository's codec. Names that come from the static
// table are kept as an index (sidx) and compared with refStaticIs, so that a
// symbolic index does not have to be turned into bytes.

const (
	refOK       = 0
	refNeedMore = 1 // the input ends inside the item
	refInvalid  = 2 // RFC 7541 makes the input a decoding error
)

// refReadInt decodes a prefix integer (RFC 7541 5.1) into a 128-bit value.
func refReadInt(n uint, b []byte) (lo, hi uint64, used int, st int) {
	if len(b) == 0 {
		return 0, 0, 0, refNeedMore
	}
	mask := byte(1)<<n - 1
	p := b[0] & mask
	if p != mask {
		return uint64(p), 0, 1, refOK
	}
	lo = uint64(mask)
	for i := 1; i < len(b); i++ {
		m := uint(7 * (i - 1))
		d := uint64(b[i] & 127)
		var alo, ahi uint64
		switch {
		case m < 64:
			alo = d << m
			if m > 57 {
				ahi = d >> (64 - m)
			}
		case m < 128:
			ahi = d << (m - 64)
		default:
			if d != 0 {
				ahi = ^uint64(0) // does not fit 128 bits either: saturate
			}
		}
		nlo := lo + alo
		carry := vIte64(nlo < lo, 1, 0)
		nhi := hi + ahi + carry
		nhi = vIte64(vOr(nhi < hi, vAnd(nhi == hi, vAnd(carry == 1, ahi == ^uint64(0)))), ^uint64(0), nhi)
		lo, hi = nlo, nhi
		if b[i]&128 == 0 {
			return lo, hi, i + 1, refOK
		}
	}
	return 0, 0, 0, refNeedMore
}

// refReadStr decodes a string literal (RFC 7541 5.2). Huffman-coded strings
// of more than 8 coded bytes are outside the harness bounds.
func refReadStr(b []byte) (s []byte, used int, st int) {
	if len(b) == 0 {
		return nil, 0, refNeedMore
	}
	huff := b[0]&128 != 0
	lo, hi, u, st := refReadInt(7, b)
	if st != refOK {
		return nil, 0, st
	}
	if hi != 0 || lo > uint64(len(b)-u) {
		return nil, 0, refNeedMore
	}
	raw := b[u : u+int(lo)]
	if !huff {
		return raw, u + int(lo), refOK
	}
	if len(raw) > 8 {
		vUnsupported("reference Huffman string longer than 8 coded bytes")
	}
	out, cnt, ok := refHuffDecode(raw)
	if !ok {
		return nil, 0, refInvalid
	}
	dec := make([]byte, 0, 16)
	for i := 0; i < cnt; i++ {
		dec = append(dec, out[i])
	}
	return dec, u + int(lo), refOK
}

type refField struct {
	sidx  uint64 // != 0: the name is the name of static entry sidx
	whole bool   // the value is the value of static entry sidx as well
	name  []byte
	value []byte
	never bool
}

type refTable struct {
	ents  []refField // newest first
	max   uint32     // current maximum size
	limit uint32     // SETTINGS_HEADER_TABLE_SIZE: upper bound for size updates
}

// refStaticIs reports whether b is the name (which=0) or value (which=1) of
// static entry idx. Branch-free in idx and in the bytes of b.
func refStaticIs(idx uint64, which int, b []byte) bool {
	r := false
	for k := 0; k < 61; k++ {
		s := refStatic[k][which]
		if len(s) != len(b) {
			continue
		}
		m := idx == uint64(k+1)
		for i := 0; i < len(s); i++ {
			m = vAnd(m, b[i] == s[i])
		}
		r = vOr(r, m)
	}
	return r
}

// refStaticLen is the length of the name or value of static entry idx.
func refStaticLen(idx uint64, which int) uint64 {
	var n uint64
	for k := 0; k < 61; k++ {
		n = vIte64(idx == uint64(k+1), uint64(len(refStatic[k][which])), n)
	}
	return n
}

func (f *refField) nameLen() uint64 {
	if f.sidx != 0 {
		return refStaticLen(f.sidx, 0)
	}
	return uint64(len(f.name))
}

func (f *refField) valueLen() uint64 {
	if f.whole {
		return refStaticLen(f.sidx, 1)
	}
	return uint64(len(f.value))
}

// entrySize is RFC 7541 4.1.
func (f *refField) entrySize() uint64 { return f.nameLen() + f.valueLen() + 32 }

func (t *refTable) size() uint64 {
	var n uint64
	for i := range t.ents {
		n += t.ents[i].entrySize()
	}
	return n
}

// evict drops the oldest entries until the table fits in room bytes.
func (t *refTable) evict(room uint64) {
	for len(t.ents) > 0 && t.size() > room {
		t.ents = t.ents[:len(t.ents)-1]
	}
}

// add inserts an entry (RFC 7541 4.4).
func (t *refTable) add(f refField) {
	sz := f.entrySize()
	if sz > uint64(t.max) {
		t.ents = t.ents[:0]
		return
	}
	t.evict(uint64(t.max) - sz)
	f.never = false
	t.ents = append([]refField{f}, t.ents...)
}

// lookup resolves an index (RFC 7541 2.3.3). ok=false: index 0 or past the
// table.
func (t *refTable) lookup(i uint64) (f refField, ok bool) {
	if i == 0 {
		return f, false
	}
	if i <= 61 {
		return refField{sidx: i, whole: true}, true
	}
	j := i - 62
	if j >= uint64(len(t.ents)) {
		return f, false
	}
	return t.ents[j], true
}

// refHpackRep decodes one representation. update=true: it was a dynamic table
// size update (applied to t), which is only legal while atStart.
func refHpackRep(t *refTable, atStart bool, b []byte) (f refField, update bool, used int, st int) {
	if len(b) == 0 {
		return f, false, 0, refNeedMore
	}
	c := b[0]
	switch {
	case c&0x80 != 0: // 6.1 indexed
		lo, hi, u, st := refReadInt(7, b)
		if st != refOK {
			return f, false, 0, st
		}
		if hi != 0 {
			return f, false, 0, refInvalid
		}
		e, ok := t.lookup(lo)
		if !ok {
			return f, false, 0, refInvalid
		}
		return e, false, u, refOK
	case c&0xe0 == 0x20: // 6.3 size update
		lo, hi, u, st := refReadInt(5, b)
		if st != refOK {
			return f, false, 0, st
		}
		if !atStart || hi != 0 || lo > uint64(t.limit) {
			return f, false, 0, refInvalid
		}
		t.max = uint32(lo)
		t.evict(lo)
		return f, true, u, refOK
	}
	// 6.2 literal: with indexing (01), without (0000), never (0001)
	var n uint = 4
	index := false
	if c&0xc0 == 0x40 {
		n, index = 6, true
	}
	never := c&0xf0 == 0x10
	lo, hi, u, st := refReadInt(n, b)
	if st != refOK {
		return f, false, 0, st
	}
	if hi != 0 {
		return f, false, 0, refInvalid
	}
	if lo != 0 {
		e, ok := t.lookup(lo)
		if !ok {
			return f, false, 0, refInvalid
		}
		f.sidx, f.name = e.sidx, e.name
	} else {
		s, k, st := refReadStr(b[u:])
		if st != refOK {
			return f, false, 0, st
		}
		f.name = s
		u += k
	}
	v, k, st := refReadStr(b[u:])
	if st != refOK {
		return f, false, 0, st
	}
	f.value = v
	u += k
	f.never = never
	if index {
		t.add(f)
	}
	return f, false, u, refOK
}

// refFieldIs compares a decoded field with the repository's HeaderField.
func refFieldIs(f *refField, key, value []byte) bool {
	var nameOK, valueOK bool
	if f.sidx != 0 {
		nameOK = refStaticIs(f.sidx, 0, key)
	} else {
		nameOK = refBytesEq(f.name, key)
	}
	if f.whole {
		valueOK = refStaticIs(f.sidx, 1, value)
	} else {
		valueOK = refBytesEq(f.value, value)
	}
	return vAnd(nameOK, valueOK)
}

func refBytesEq(a, b []byte) bool {
	if len(a) != len(b) {
		return false
	}
	r := true
	for i := range a {
		r = vAnd(r, a[i] == b[i])
	}
	return r
}

// refTableIs compares the reference table (newest first) with the
// repository's dynamic table (newest last).
func refTableIs(t *refTable, hp *HPACK) bool {
	if len(t.ents) != len(hp.dynamic) {
		return false
	}
	r := true
	for i := range t.ents {
		d := hp.dynamic[len(hp.dynamic)-1-i]
		r = vAnd(r, refFieldIs(&t.ents[i], d.key, d.value))
	}
	return r
}
