package http2

//verif:harness prop=SMOKE unwind=16
func VerifH_smoke_int() {
	bits := vU8()
	idx := vU64()
	vAssume(bits >= 1 && bits <= 8)
	out := appendInt(nil, bits, idx)
	vAssert(len(out) >= 1, "smoke.len")
	vAssert(len(out) <= 11, "smoke.maxlen")
	vCover("smoke.multi", len(out) > 1)
	if idx < 10 && bits == 8 {
		vAssert(out[0] == byte(idx), "smoke.small")
	}
}

//verif:harness prop=SMOKE unwind=16
func VerifH_smoke_fail() {
	n := vRange(0, 3)
	b := vBytes(n)
	s := 0
	for _, x := range b {
		s += int(x)
	}
	vAssert(s != 300, "smoke.sum")
}
