package http2

import (
	"io"

	"github.com/valyala/fasthttp"
)

// C06 — the server never sends DATA beyond the peer's windows, and finishes.

// vDrainWriter takes everything the stream loop queued for the write loop.
func vDrainWriter(sc *serverConn) []*FrameHeader {
	var out []*FrameHeader
	for {
		select {
		case fr := <-sc.writer:
			out = append(out, fr)
		default:
			return out
		}
	}
}

// vScriptReader is a response body stream whose Read results are arbitrary
// but respect the io.Reader contract.
type vScriptReader struct {
	n     [3]int
	eof   [3]bool
	fail  [3]bool
	pos   int
	given int
	over  bool // EOF or an error has been returned: from then on (0, io.EOF)
}

var errVScript = io.ErrNoProgress

func (r *vScriptReader) Read(p []byte) (int, error) {
	if r.over || r.pos >= 3 {
		r.over = true
		return 0, io.EOF
	}
	n, eof, fail := r.n[r.pos], r.eof[r.pos], r.fail[r.pos]
	r.pos++
	if fail {
		r.over = true
		return 0, errVScript
	}
	r.given += n
	if eof {
		r.over = true
		return n, io.EOF
	}
	return n, nil
}

// vCheckDataFrames walks the DATA frames a send step produced and checks the
// flow-control ledger; it returns the number of body bytes sent and whether
// END_STREAM went out. ws/wc are the windows before the step.
func vCheckDataFrames(frames []*FrameHeader, id uint32, body []byte, off int, ws, wc int64) (sent int, ended bool, rst bool) {
	for _, fr := range frames {
		vAssert(fr.Stream() == id, "C06.send.stream-id")
		switch b := fr.Body().(type) {
		case *Data:
			vAssert(!ended && !rst, "C06.send.nothing-after-end")
			n := len(b.Data())
			vAssert(n > 0 && n <= 16384, "C06.send.frame-size")
			vAssert(int64(n) <= ws && int64(n) <= wc, "C06.send.within-windows")
			vAssert(vChunkIs(b.Data(), body, off+sent), "C06.send.contiguous-body-bytes")
			ws -= int64(n)
			wc -= int64(n)
			sent += n
			ended = b.EndStream()
			vAssert(!b.Padding(), "C06.send.no-padding")
		case *RstStream:
			rst = true
		default:
			vAssert(false, "C06.send.unexpected-frame-type")
		}
	}
	return sent, ended, rst
}

// One call of the send engine for a buffered response: arbitrary stream and
// connection windows in [-2^31, 2^31-1], arbitrary remaining body of
// 1..49152 bytes (content abstract), pendingEnd arbitrary. Every DATA frame
// is within 16 KiB and within both windows as they were before it, the
// frames are consecutive pieces of the body, both windows go down by exactly
// what was sent, END_STREAM goes on the last piece only when the body is
// exhausted, true is returned exactly when everything (END_STREAM included)
// went out, and the step only stops early when a window is exhausted.
//
//verif:harness prop=C06 unwind=8 timeout=300 use=vStubDataSetDataAlias
func VerifH_C06_send() {
	sc := vNewServerConn()
	strm := &Stream{id: 1, state: StreamStateHalfClosed, responded: true, headersFinished: true}
	strm.ctx = &fasthttp.RequestCtx{}
	ws, wc := int64(int32(vU32())), int64(int32(vU32()))
	strm.window, sc.clientWindow = ws, wc
	L := vInt()
	vAssume(L >= 1 && L <= 49152)
	body := vAbstractBytes(L)
	strm.pendingData = body
	strm.pendingEnd = vBool()
	end := strm.pendingEnd

	done := sc.sendData(strm)

	frames := vDrainWriter(sc)
	sent, ended, rst := vCheckDataFrames(frames, 1, body, 0, ws, wc)
	vAssert(!rst, "C06.send.no-reset-for-buffered-body")
	vAssert(strm.window == ws-int64(sent) && sc.clientWindow == wc-int64(sent), "C06.send.windows-decrease-by-sent")
	vAssert(len(strm.pendingData) == L-sent, "C06.send.remaining")
	vAssert(ended == (end && sent == L && sent > 0), "C06.send.end-stream-placement")
	vAssert(done == (sent == L), "C06.send.return-value")
	if !done {
		vAssert(strm.window <= 0 || sc.clientWindow <= 0, "C06.send.stops-only-when-a-window-is-exhausted")
	}
	if ws > 0 && wc > 0 {
		vAssert(sent > 0, "C06.send.progress")
	}
	vCover("C06.send.three-frames", len(frames) == 3 && done)
	vCover("C06.send.blocked-by-conn", !done && sent > 0 && sc.clientWindow == 0 && strm.window > 0)
	vCover("C06.send.negative-window", ws < 0 && sent == 0)
}

// The same step for a streamed response body whose reader returns arbitrary
// (n, err) results within the io.Reader contract for up to 2 (quick) / 3
// (thorough) reads, declared
// length arbitrary (or unknown): the ledger obligations above, and whenever
// true is returned the peer has been told the stream is over (END_STREAM on a
// DATA frame, or RST_STREAM).
//
//verif:harness prop=C06 unwind=8 timeout=600 timeoutT=4000 use=vStubDataSetDataAlias
func VerifH_C06_stream() {
	sc := vNewServerConn()
	strm := &Stream{id: 1, state: StreamStateHalfClosed, responded: true, headersFinished: true}
	strm.ctx = &fasthttp.RequestCtx{}
	ws, wc := int64(int32(vU32())), int64(int32(vU32()))
	strm.window, sc.clientWindow = ws, wc
	rd := &vScriptReader{}
	reads := vPick(2, 3)
	rd.pos = 3 - reads
	for i := 3 - reads; i < 3; i++ {
		rd.n[i] = vInt()
		vAssume(rd.n[i] >= 0 && rd.n[i] <= 16384)
		rd.eof[i] = vBool()
		rd.fail[i] = vBool()
		vAssume(!(rd.fail[i] && rd.eof[i]))
		vAssume(rd.n[i] > 0 || rd.eof[i] || rd.fail[i]) // (0, nil) is outside the contract the code relies on
	}
	buf := vAbstractBytes(16384)
	strm.bodyBuf = buf
	strm.bodyStream = rd
	strm.bodySize = int64(vInt())
	vAssume(strm.bodySize >= -1 && strm.bodySize <= 1<<20)
	// a declared length is what the handler's reader delivers at most
	vAssume(strm.bodySize < 0 || int64(rd.n[0]+rd.n[1]+rd.n[2]) <= strm.bodySize)

	done := sc.sendData(strm)

	frames := vDrainWriter(sc)
	sent, ended, rst := 0, false, false
	wsl, wcl := ws, wc
	for _, fr := range frames {
		switch b := fr.Body().(type) {
		case *Data:
			vAssert(!ended && !rst, "C06.stream.nothing-after-end")
			n := len(b.Data())
			vAssert(n <= 16384 && (n > 0 || b.EndStream()), "C06.stream.frame-size")
			// an empty DATA frame with END_STREAM needs no window (RFC 7540 6.9.1)
			vAssert(n == 0 || (int64(n) <= wsl && int64(n) <= wcl), "C06.stream.within-windows")
			wsl -= int64(n)
			wcl -= int64(n)
			sent += n
			ended = b.EndStream()
		case *RstStream:
			rst = true
		}
	}
	vAssert(strm.window == ws-int64(sent) && sc.clientWindow == wc-int64(sent), "C06.stream.windows-decrease-by-sent")
	vAssert(sent <= rd.given, "C06.stream.only-bytes-read")
	if done {
		vAssert(ended || rst, "C06.stream.finished-means-peer-was-told")
	} else {
		vAssert(strm.window <= 0 || sc.clientWindow <= 0, "C06.stream.stops-only-when-a-window-is-exhausted")
		vAssert(!ended, "C06.stream.not-done-not-ended")
	}
	vCover("C06.stream.two-reads", rd.pos == 3 && done && ended && sent > 16384)
	vCover("C06.stream.read-error", rst)
}

// A stream-level WINDOW_UPDATE: for every window w in [-2^31, 2^31-1] and
// every increment 1..2^31-1 the stream window becomes exactly w+inc, and the
// frame is refused (FLOW_CONTROL_ERROR) exactly when that exceeds 2^31-1.
//
//verif:harness prop=C06 unwind=8
func VerifH_C06_wustream() {
	sc := vNewServerConn()
	strm := &Stream{id: 1, state: StreamStateOpen, headersFinished: true}
	if vBool() {
		strm.state = StreamStateHalfClosed
	}
	strm.ctx = &fasthttp.RequestCtx{}
	w := int64(int32(vU32()))
	strm.window = w
	inc := vU32()
	vAssume(inc >= 1 && inc <= 1<<31-1)
	fr := AcquireFrameHeader()
	fr.SetStream(1)
	wu := AcquireFrame(FrameWindowUpdate).(*WindowUpdate)
	wu.SetIncrement(int(inc))
	fr.SetBody(wu)
	fr.kind = FrameWindowUpdate

	err := sc.handleFrame(strm, fr)

	over := w+int64(inc) > 1<<31-1
	vAssert((err != nil) == over, "C06.wustream.limit-is-2^31-1")
	if err == nil {
		vAssert(strm.window == w+int64(inc), "C06.wustream.exact-sum")
	} else {
		e, ok := err.(Error)
		vAssert(ok && e.Code() == FlowControlError, "C06.wustream.error-code")
	}
	vCover("C06.wustream.exactly-max", w+int64(inc) == 1<<31-1)
	vCover("C06.wustream.negative", w < 0 && err == nil)
}

// Two responses of 12 bytes each wait on a connection window of 10 and on
// stream windows that the client's SETTINGS fixed at 8; then three (quick) / four
// (thorough) grants
// arrive, each one of: connection WINDOW_UPDATE of 1, 5 or 20, WINDOW_UPDATE
// of 3 on stream 1 or on stream 3, SETTINGS_INITIAL_WINDOW_SIZE raised to 11
// or lowered to 2 (a negative window for a stream that has already sent
// more), or a SETTINGS frame that carries another parameter only. Through the real read loop and stream loop: after every step the
// DATA bytes sent so far on each stream and on the connection are within what
// has been granted, and everything the grants permit has been sent (no
// response is left waiting with both its windows open); END_STREAM goes out
// once per stream, with its last byte.
//
//verif:harness prop=C06 unwind=200 timeout=600
func VerifH_C06_resume() {
	s := vStartServer(8)
	body := []byte("0123456789ab")
	s.sc.h = func(ctx *fasthttp.RequestCtx) {
		ctx.Response.SetStatusCode(200)
		ctx.Response.SetBody(body)
	}
	s.sc.clientWindow = 10
	// the client's SETTINGS: initial stream window 8
	s.send(vFrame(0x4, 0x0, 0, []byte{0, 4, 0, 0, 0, 8}))
	s.replies()
	initial := int64(8)
	connGrant := int64(10)
	strmGrant := map[uint32]int64{1: 8, 3: 8}
	sent := map[uint32]int64{}
	ended := map[uint32]int{}
	account := func(frames []*FrameHeader) {
		before := map[uint32]int64{1: sent[1], 3: sent[3]}
		for _, fr := range frames {
			if d, ok := fr.Body().(*Data); ok {
				vAssert(ended[fr.Stream()] == 0, "C06.resume.nothing-after-end-stream")
				sent[fr.Stream()] += int64(len(d.Data()))
				if d.EndStream() {
					ended[fr.Stream()]++
				}
			}
		}
		// what went out in this step fits what was open when it went out (a
		// SETTINGS decrease may leave a window negative; nothing is sent then)
		room := func(grant, used int64) int64 {
			if grant-used < 0 {
				return 0
			}
			return grant - used
		}
		vAssert(sent[1]+sent[3]-before[1]-before[3] <= room(connGrant, before[1]+before[3]), "C06.resume.within-connection-window")
		for _, id := range []uint32{1, 3} {
			vAssert(sent[id]-before[id] <= room(strmGrant[id], before[id]), "C06.resume.within-stream-window")
		}
	}
	s.send(vFrame(0x1, 0x5, 1, vReqBlock('1')))
	account(s.replies())
	s.send(vFrame(0x1, 0x5, 3, vReqBlock('3')))
	account(s.replies())
	for step := 0; step < vPick(3, 4); step++ {
		switch vRange(0, 7) {
		case 7:
			// a SETTINGS frame that does not mention the window changes no window
			s.send(vFrame(0x4, 0x0, 0, []byte{0, 1, 0, 0, 0x10, 0}))
		case 0:
			connGrant++
			s.send(vFrame(0x8, 0x0, 0, []byte{0, 0, 0, 1}))
		case 1:
			connGrant += 5
			s.send(vFrame(0x8, 0x0, 0, []byte{0, 0, 0, 5}))
		case 2:
			connGrant += 20
			s.send(vFrame(0x8, 0x0, 0, []byte{0, 0, 0, 20}))
		case 3:
			strmGrant[1] += 3
			s.send(vFrame(0x8, 0x0, 1, []byte{0, 0, 0, 3}))
		case 4:
			strmGrant[3] += 3
			s.send(vFrame(0x8, 0x0, 3, []byte{0, 0, 0, 3}))
		case 5:
			strmGrant[1] += 11 - initial
			strmGrant[3] += 11 - initial
			initial = 11
			s.send(vFrame(0x4, 0x0, 0, []byte{0, 4, 0, 0, 0, 11}))
		default:
			strmGrant[1] += 2 - initial
			strmGrant[3] += 2 - initial
			initial = 2
			s.send(vFrame(0x4, 0x0, 0, []byte{0, 4, 0, 0, 0, 2}))
		}
		account(s.replies())
		// progress: no stream is left with bytes to send while both its window
		// and the connection window are open
		connLeft := connGrant - sent[1] - sent[3]
		for _, id := range []uint32{1, 3} {
			if ended[id] == 0 && sent[id] < 12 {
				vAssert(connLeft <= 0 || strmGrant[id]-sent[id] <= 0, "C06.resume.sends-what-the-windows-allow")
			}
		}
	}
	for _, id := range []uint32{1, 3} {
		vAssert(ended[id] <= 1 && (ended[id] == 1) == (sent[id] == 12), "C06.resume.end-stream-with-last-byte")
	}
	vPoolsSane("C06.resume")
	vCover("C06.resume.one-done", ended[1] == 1 || ended[3] == 1)
	vCover("C06.resume.negative-window", strmGrant[1] < sent[1])
}

// The acknowledgement of a SETTINGS frame tells the peer that the new
// SETTINGS_INITIAL_WINDOW_SIZE is in force: the DATA octets that follow the ACK
// on the wire have to fit the stream window as the peer then computes it. Two
// ways in which something to send and the SETTINGS frame arrive in one read:
// the request itself (new window 0, 5 or 20, response 12 octets), or a
// WINDOW_UPDATE of 4 for a response parked on a window of 8 that the SETTINGS
// frame then lowers to 2, 6 or 9.
//
//verif:harness prop=C06,C18 unwind=200 timeout=600
func VerifH_C06_ack() {
	s := vStartServer(8)
	body := []byte("0123456789ab")
	s.sc.h = func(ctx *fasthttp.RequestCtx) {
		ctx.Response.SetStatusCode(200)
		ctx.Response.SetBody(body)
	}
	var chunk []byte
	var peer int64 // the stream window as the peer sees it once its SETTINGS frame is acknowledged
	if vBool() {
		win := [3]int64{0, 5, 20}[vRange(0, 2)]
		chunk = vFrame(0x1, 0x5, 1, vReqBlock('1'))
		chunk = append(chunk, vFrame(0x4, 0x0, 0, []byte{0, 4, 0, 0, 0, byte(win)})...)
		peer = win
	} else {
		s.send(vFrame(0x4, 0x0, 0, []byte{0, 4, 0, 0, 0, 8}))
		s.send(vFrame(0x1, 0x5, 1, vReqBlock('1')))
		s.replies() // 8 of the 12 octets have gone out, 4 wait for window
		win := [3]int64{2, 6, 9}[vRange(0, 2)]
		chunk = vFrame(0x8, 0x0, 1, []byte{0, 0, 0, 4})
		chunk = append(chunk, vFrame(0x4, 0x0, 0, []byte{0, 4, 0, 0, 0, byte(win)})...)
		peer = 8 - 8 + 4 + (win - 8)
	}
	s.send(chunk)
	before, after := int64(0), int64(0)
	acked := false
	for _, fr := range s.replies() {
		switch b := fr.Body().(type) {
		case *Settings:
			if b.IsAck() {
				acked = true
			}
		case *Data:
			if acked {
				after += int64(len(b.Data()))
			} else {
				before += int64(len(b.Data()))
			}
		}
	}
	vAssert(acked, "C06.ack.acknowledged")
	room := peer - before
	if room < 0 {
		room = 0
	}
	vAssert(after <= room, "C06.ack.data-after-the-ack-respects-the-new-window")
	vCover("C06.ack.parked", before+after > 0 && acked)
}
