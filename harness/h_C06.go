package http2

import (
	"io"

	"github.com/valyala/fasthttp"
)

// C06 — the server never sends DATA beyond the peer's windows, and finishes.

// vDrainWriter takes everything the stream loop queued for the write loop.
func vDrainWriter(sc *serverConn) []*FrameHeader {
	var out []*FrameHeader
	for {
		select {
		case fr := <-sc.writer:
			out = append(out, fr)
		default:
			return out
		}
	}
}

// vScriptReader is a response body stream whose Read results are arbitrary
// but respect the io.Reader contract.
type vScriptReader struct {
	n     [3]int
	eof   [3]bool
	fail  [3]bool
	pos   int
	given int
	over  bool // EOF or an error has been returned: from then on (0, io.EOF)
}

var errVScript = io.ErrNoProgress

func (r *vScriptReader) Read(p []byte) (int, error) {
	if r.over || r.pos >= 3 {
		r.over = true
		return 0, io.EOF
	}
	n, eof, fail := r.n[r.pos], r.eof[r.pos], r.fail[r.pos]
	r.pos++
	if fail {
		r.over = true
		return 0, errVScript
	}
	r.given += n
	if eof {
		r.over = true
		return n, io.EOF
	}
	return n, nil
}

// vCheckDataFrames walks the DATA frames a send step produced and checks the
// flow-control ledger; it returns the number of body bytes sent and whether
// END_STREAM went out. ws/wc are the windows before the step.
func vCheckDataFrames(frames []*FrameHeader, id uint32, body []byte, off int, ws, wc int64) (sent int, ended bool, rst bool) {
	for _, fr := range frames {
		vAssert(fr.Stream() == id, "C06.send.stream-id")
		switch b := fr.Body().(type) {
		case *Data:
			vAssert(!ended && !rst, "C06.send.nothing-after-end")
			n := len(b.Data())
			vAssert(n > 0 && n <= 16384, "C06.send.frame-size")
			vAssert(int64(n) <= ws && int64(n) <= wc, "C06.send.within-windows")
			vAssert(vChunkIs(b.Data(), body, off+sent), "C06.send.contiguous-body-bytes")
			ws -= int64(n)
			wc -= int64(n)
			sent += n
			ended = b.EndStream()
			vAssert(!b.Padding(), "C06.send.no-padding")
		case *RstStream:
			rst = true
		default:
			vAssert(false, "C06.send.unexpected-frame-type")
		}
	}
	return sent, ended, rst
}

// One call of the send engine for a buffered response: arbitrary stream and
// connection windows in [-2^31, 2^31-1], arbitrary remaining body of
// 1..49152 bytes (content abstract), pendingEnd arbitrary. Every DATA frame
// is within 16 KiB and within both windows as they were before it, the
// frames are consecutive pieces of the body, both windows go down by exactly
// what was sent, END_STREAM goes on the last piece only when the body is
// exhausted, true is returned exactly when everything (END_STREAM included)
// went out, and the step only stops early when a window is exhausted.
//
//verif:harness prop=C06 unwind=8 timeout=300 use=vStubDataSetDataAlias
func VerifH_C06_send() {
	sc := vNewServerConn()
	strm := &Stream{id: 1, state: StreamStateHalfClosed, responded: true, headersFinished: true}
	strm.ctx = &fasthttp.RequestCtx{}
	ws, wc := int64(int32(vU32())), int64(int32(vU32()))
	strm.window, sc.clientWindow = ws, wc
	L := vInt()
	vAssume(L >= 1 && L <= 49152)
	body := vAbstractBytes(L)
	strm.pendingData = body
	strm.pendingEnd = vBool()
	end := strm.pendingEnd

	done := sc.sendData(strm)

	frames := vDrainWriter(sc)
	sent, ended, rst := vCheckDataFrames(frames, 1, body, 0, ws, wc)
	vAssert(!rst, "C06.send.no-reset-for-buffered-body")
	vAssert(strm.window == ws-int64(sent) && sc.clientWindow == wc-int64(sent), "C06.send.windows-decrease-by-sent")
	vAssert(len(strm.pendingData) == L-sent, "C06.send.remaining")
	vAssert(ended == (end && sent == L && sent > 0), "C06.send.end-stream-placement")
	vAssert(done == (sent == L), "C06.send.return-value")
	if !done {
		vAssert(strm.window <= 0 || sc.clientWindow <= 0, "C06.send.stops-only-when-a-window-is-exhausted")
	}
	if ws > 0 && wc > 0 {
		vAssert(sent > 0, "C06.send.progress")
	}
	vCover("C06.send.three-frames", len(frames) == 3 && done)
	vCover("C06.send.blocked-by-conn", !done && sent > 0 && sc.clientWindow == 0 && strm.window > 0)
	vCover("C06.send.negative-window", ws < 0 && sent == 0)
}

// The same step for a streamed response body whose reader returns arbitrary
// (n, err) results within the io.Reader contract for up to 2 (quick) / 3
// (thorough) reads, declared
// length arbitrary (or unknown): the ledger obligations above, and whenever
// true is returned the peer has been told the stream is over (END_STREAM on a
// DATA frame, or RST_STREAM).
//
//verif:harness prop=C06 unwind=8 timeout=600 timeoutT=4000 use=vStubDataSetDataAlias
func VerifH_C06_stream() {
	sc := vNewServerConn()
	strm := &Stream{id: 1, state: StreamStateHalfClosed, responded: true, headersFinished: true}
	strm.ctx = &fasthttp.RequestCtx{}
	ws, wc := int64(int32(vU32())), int64(int32(vU32()))
	strm.window, sc.clientWindow = ws, wc
	rd := &vScriptReader{}
	reads := vPick(2, 3)
	rd.pos = 3 - reads
	for i := 3 - reads; i < 3; i++ {
		rd.n[i] = vInt()
		vAssume(rd.n[i] >= 0 && rd.n[i] <= 16384)
		rd.eof[i] = vBool()
		rd.fail[i] = vBool()
		vAssume(!(rd.fail[i] && rd.eof[i]))
		vAssume(rd.n[i] > 0 || rd.eof[i] || rd.fail[i]) // (0, nil) is outside the contract the code relies on
	}
	buf := vAbstractBytes(16384)
	strm.bodyBuf = buf
	strm.bodyStream = rd
	strm.bodySize = int64(vInt())
	vAssume(strm.bodySize >= -1 && strm.bodySize <= 1<<20)
	// a declared length is what the handler's reader delivers at most
	vAssume(strm.bodySize < 0 || int64(rd.n[0]+rd.n[1]+rd.n[2]) <= strm.bodySize)

	done := sc.sendData(strm)

	frames := vDrainWriter(sc)
	sent, ended, rst := 0, false, false
	wsl, wcl := ws, wc
	for _, fr := range frames {
		switch b := fr.Body().(type) {
		case *Data:
			vAssert(!ended && !rst, "C06.stream.nothing-after-end")
			n := len(b.Data())
			vAssert(n <= 16384 && (n > 0 || b.EndStream()), "C06.stream.frame-size")
			// an empty DATA frame with END_STREAM needs no window (RFC 7540 6.9.1)
			vAssert(n == 0 || (int64(n) <= wsl && int64(n) <= wcl), "C06.stream.within-windows")
			wsl -= int64(n)
			wcl -= int64(n)
			sent += n
			ended = b.EndStream()
		case *RstStream:
			rst = true
		}
	}
	vAssert(strm.window == ws-int64(sent) && sc.clientWindow == wc-int64(sent), "C06.stream.windows-decrease-by-sent")
	vAssert(sent <= rd.given, "C06.stream.only-bytes-read")
	if done {
		vAssert(ended || rst, "C06.stream.finished-means-peer-was-told")
	} else {
		vAssert(strm.window <= 0 || sc.clientWindow <= 0, "C06.stream.stops-only-when-a-window-is-exhausted")
		vAssert(!ended, "C06.stream.not-done-not-ended")
	}
	vCover("C06.stream.two-reads", rd.pos == 3 && done && ended && sent > 16384)
	vCover("C06.stream.read-error", rst)
}

// A stream-level WINDOW_UPDATE: for every window w in [-2^31, 2^31-1] and
// every increment 1..2^31-1 the stream window becomes exactly w+inc, and the
// frame is refused (FLOW_CONTROL_ERROR) exactly when that exceeds 2^31-1.
//
//verif:harness prop=C06 unwind=8
func VerifH_C06_wustream() {
	sc := vNewServerConn()
	strm := &Stream{id: 1, state: StreamStateOpen, headersFinished: true}
	if vBool() {
		strm.state = StreamStateHalfClosed
	}
	strm.ctx = &fasthttp.RequestCtx{}
	w := int64(int32(vU32()))
	strm.window = w
	inc := vU32()
	vAssume(inc >= 1 && inc <= 1<<31-1)
	fr := AcquireFrameHeader()
	fr.SetStream(1)
	wu := AcquireFrame(FrameWindowUpdate).(*WindowUpdate)
	wu.SetIncrement(int(inc))
	fr.SetBody(wu)
	fr.kind = FrameWindowUpdate

	err := sc.handleFrame(strm, fr)

	over := w+int64(inc) > 1<<31-1
	vAssert((err != nil) == over, "C06.wustream.limit-is-2^31-1")
	if err == nil {
		vAssert(strm.window == w+int64(inc), "C06.wustream.exact-sum")
	} else {
		e, ok := err.(Error)
		vAssert(ok && e.Code() == FlowControlError, "C06.wustream.error-code")
	}
	vCover("C06.wustream.exactly-max", w+int64(inc) == 1<<31-1)
	vCover("C06.wustream.negative", w < 0 && err == nil)
}
