package http2

import (
	"fmt"

	"github.com/valyala/fasthttp"
)

// The client under a server that allows 1 or 2 concurrent streams: of three
// requests handed over at once only that many are opened (HEADERS on the
// wire), the others end with an error without a frame having been written for
// them; every SETTINGS frame of the server is acknowledged, once, in order;
// when the server has answered a stream, a further request is opened again and
// the number of streams open at the server never passes the limit.
//
//verif:harness prop=C18,C02 unwind=300 timeout=600
func VerifH_C18_conc() {
	cl := vStartClient()
	limit := vRange(1, 2)
	cl.feed(vFrame(0x4, 0x0, 0, []byte{0, 3, 0, 0, 0, byte(limit)}))
	acks, open := 0, 0
	opened := map[uint32]bool{}
	scan := func() {
		for _, f := range cl.sent() {
			switch f.typ {
			case 0x4:
				if f.ack {
					acks++
				}
			case 0x1:
				vAssert(!opened[f.stream], "C18.conc.fresh-stream-id")
				opened[f.stream] = true
				open++
				vAssert(open <= limit, "C18.conc.never-more-open-streams-than-the-peer-allows")
			}
		}
	}
	scan()
	vAssert(acks == 1, "C18.conc.settings-acknowledged")
	var calls []*vCall
	for i := 0; i < 3; i++ {
		calls = append(calls, cl.request("GET", "/"+string([]byte{byte('a' + i)}), nil))
		scan()
	}
	refused := 0
	for _, k := range calls {
		done, err := k.outcome()
		if done {
			vAssert(err != nil, "C18.conc.unanswered-request-cannot-succeed")
			refused++
		}
	}
	vNote(fmt.Sprintf("limit=%d open=%d refused=%d", limit, open, refused))
	vAssert(open == limit && refused == 3-limit, "C18.conc.the-rest-is-turned-away")
	// a second SETTINGS frame, then the server answers stream 1
	cl.feed(vFrame(0x4, 0x0, 0, []byte{0, 4, 0, 1, 0, 0}))
	scan()
	vAssert(acks == 2, "C18.conc.every-settings-frame-acknowledged-once")
	cl.feed(vFrame(0x1, 0x5, 1, vRespBlock(false, '1')))
	open--
	d0, e0 := calls[0].outcome()
	vAssert(d0 && e0 == nil, "C18.conc.first-answered")
	again := cl.request("GET", "/d", nil)
	scan()
	vAssert(open == limit, "C18.conc.freed-slot-is-usable")
	// the limit still stands: the second SETTINGS frame did not mention it
	extra := cl.request("GET", "/e", nil)
	scan()
	dx, ex := extra.outcome()
	vAssert(dx && ex != nil, "C18.conc.limit-outlives-a-settings-frame-that-omits-it")
	cl.feed(vFrame(0x1, 0x5, uint32(2*limit+1), vRespBlock(false, 'd')))
	d1, e1 := again.outcome()
	vAssert(d1 && e1 == nil, "C18.conc.request-on-the-freed-slot-answered")
	vCover("C18.conc.two", limit == 2 && d1)
}

// The server after two SETTINGS frames of the client: the first announces
// SETTINGS_HEADER_TABLE_SIZE 0, 64 or 4096, the second carries another
// parameter only. The header blocks of the two responses that follow decode
// with the reference decoder under the announced limit: no dynamic table size
// update above it, no reference to an entry that would not fit.
//
//verif:harness prop=C18 unwind=300 timeout=600
func VerifH_C18_omit() {
	s := vStartServer(8)
	size := [3]uint32{0, 64, 4096}[vRange(0, 2)]
	s.sc.h = func(ctx *fasthttp.RequestCtx) {
		// 201 is not in the static table: the encoder inserts it if it thinks
		// it has a dynamic table, and refers to the entry the second time
		ctx.Response.SetStatusCode(201)
		ctx.Response.Header.Set("x-k", "v1")
	}
	s.send(vFrame(0x4, 0x0, 0, []byte{0, 1, byte(size >> 24), byte(size >> 16), byte(size >> 8), byte(size)}))
	s.send(vFrame(0x4, 0x0, 0, []byte{0, 4, 0, 1, 0x11, 0x70}))
	acks := vClassify(s.replies()).acks
	vAssert(acks == 2, "C18.omit.both-acknowledged")
	t := &refTable{max: 4096, limit: size}
	if size < 4096 {
		t.max = size
	}
	for i := 0; i < 2; i++ {
		id := uint32(1 + 2*i)
		s.send(vFrame(0x1, 0x5, id, vReqBlock(byte('0'+id))))
		for _, fr := range s.replies() {
			h, ok := fr.Body().(*Headers)
			if !ok {
				continue
			}
			blk := h.Headers()
			for pos := 0; pos < len(blk); {
				_, _, used, st := refHpackRep(t, pos == 0, blk[pos:])
				vAssert(st == refOK, "C18.omit.block-decodes-under-the-announced-table-size")
				if st != refOK {
					return
				}
				pos += used
			}
			vAssert(t.size() <= uint64(size), "C18.omit.table-within-the-announced-size")
		}
	}
	vCover("C18.omit.zero", size == 0)
}

// The client's encoder table against the server's SETTINGS_HEADER_TABLE_SIZE:
// the handshake's SETTINGS frame announces 0, 100, 4096 or 8192 octets (or
// does not mention it), a later frame announces 0, 50 or 4096; the request that
// follows is encoded with a table no larger than the latest value.
//
//verif:harness prop=C18,C04 unwind=64 timeout=300
func VerifH_C18_handshake() {
	first := [5]int64{-1, 0, 100, 4096, 8192}[vRange(0, 4)]
	later := [3]uint32{0, 50, 4096}[vRange(0, 2)]
	var pl []byte
	if first >= 0 {
		pl = []byte{0, 1, byte(first >> 24), byte(first >> 16), byte(first >> 8), byte(first)}
	}
	c := vNewConn()
	c.serverS = Settings{}
	c.br = vNewReader(vFrame(0x4, 0x0, 0, pl))
	bw, _ := vNewWriter()
	c.bw = bw
	c.c = &vConn{done: make(chan struct{})}
	vAssert(c.doHandshake() == nil, "C18.handshake.ok")
	st := &Settings{}
	st.Reset()
	vAssert(st.Read([]byte{0, 1, byte(later >> 24), byte(later >> 16), byte(later >> 8), byte(later)}) == nil, "C18.handshake.settings-decode")
	c.handleSettings(st)
	req, res := &fasthttp.Request{}, &fasthttp.Response{}
	req.Header.SetMethod("GET")
	req.URI().SetHost("h")
	req.URI().SetPath("/x")
	req.URI().SetScheme("https")
	ctx := &Ctx{Request: req, Response: res, Err: make(chan error, 1)}
	vAssert(c.writeRequest(ctx) == nil, "C18.handshake.request-written")
	vAssert(c.enc.maxTableSize <= later, "C18.handshake.encoder-table-within-the-latest-announced-size")
	vAssert(c.enc.DynamicSize() <= later, "C18.handshake.encoder-table-content-within-it")
	vCover("C18.handshake.large-then-zero", first == 8192 && later == 0)
}
