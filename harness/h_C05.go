package http2

// C05 — frames serialise to, and parse from, the RFC 7540 wire layout. The
// read half is decided by VerifH_C16_frame (every well-formed frame parses to
// the reference reading); this file holds the write half.

// vWriteFrame serialises fr into a buffer through FrameHeader.WriteTo.
func vWriteFrame(fr *FrameHeader) []byte {
	bw, w := vNewWriter()
	n, err := fr.WriteTo(bw)
	vAssert(err == nil, "C05.write.no-error")
	ferr := bw.Flush()
	vAssert(ferr == nil, "C05.write.flush")
	vAssert(int(n) == len(w.out), "C05.write.count")
	return w.out
}

// Every frame type built through the public setters with arbitrary field
// values (stream id any 31-bit value, payloads of 0..3 (quick) / 0..6
// (thorough) arbitrary bytes, every flag setter on or off, padding on or off
// where the API offers it) is written as one well-formed RFC 7540 frame that
// the reference parser reads back to the same fields; padding octets are
// zero.
//
//verif:harness prop=C05 unwind=300 timeout=600
func VerifH_C05_write() {
	typ := vRange(0, 9)
	stream := vU32()
	vAssume(stream < 1<<31)
	n := vRange(0, vPick(3, 6))
	body := vBytes(n)
	b1, b2, b3 := vBool(), vBool(), vBool()
	v32 := vU32()
	w8 := vU8()

	fr := AcquireFrameHeader()
	fr.SetStream(stream)
	switch typ {
	case 0:
		d := AcquireFrame(FrameData).(*Data)
		d.SetData(body)
		d.SetEndStream(b1)
		d.SetPadding(b2)
		fr.SetBody(d)
	case 1:
		h := AcquireFrame(FrameHeaders).(*Headers)
		h.SetHeaders(body)
		h.SetEndStream(b1)
		h.SetEndHeaders(b2)
		h.SetPadding(b3)
		fr.SetBody(h)
	case 2:
		p := AcquireFrame(FramePriority).(*Priority)
		p.SetStream(v32)
		p.SetWeight(w8)
		fr.SetBody(p)
	case 3:
		r := AcquireFrame(FrameResetStream).(*RstStream)
		r.SetCode(ErrorCode(v32))
		fr.SetBody(r)
	case 4:
		s := AcquireFrame(FrameSettings).(*Settings)
		s.SetAck(b1)
		fr.SetBody(s)
	case 5:
		pp := AcquireFrame(FramePushPromise).(*PushPromise)
		pp.SetHeader(body)
		pp.stream = v32 & (1<<31 - 1) // there is no public setter for the promised id
		fr.SetBody(pp)
	case 6:
		p := AcquireFrame(FramePing).(*Ping)
		p.SetData(vBytes(8))
		p.SetAck(b1)
		fr.SetBody(p)
	case 7:
		g := AcquireFrame(FrameGoAway).(*GoAway)
		g.SetStream(v32)
		g.SetCode(ErrorCode(vU32()))
		g.SetData(body)
		fr.SetBody(g)
	case 8:
		wu := AcquireFrame(FrameWindowUpdate).(*WindowUpdate)
		vAssume(v32 < 1<<31)
		wu.SetIncrement(int(v32))
		fr.SetBody(wu)
	case 9:
		c := AcquireFrame(FrameContinuation).(*Continuation)
		c.SetHeader(body)
		c.SetEndHeaders(b1)
		fr.SetBody(c)
	}
	// what the setters were given, read back before serialising
	var wantCode uint32
	var pingData []byte
	switch b := fr.Body().(type) {
	case *GoAway:
		wantCode = uint32(b.Code())
	case *Ping:
		pingData = append([]byte(nil), b.Data()...)
	}

	out := vWriteFrame(fr)
	f, used, st := refParseFrame(out, 0)
	vAssert(st == refFrOK, "C05.write.well-formed")
	if st != refFrOK {
		return
	}
	vAssert(used == len(out), "C05.write.one-frame")
	vAssert(int(f.typ) == typ, "C05.write.type")
	vAssert(f.stream == stream, "C05.write.stream")
	switch typ {
	case 0:
		vAssert(refBytesEq(f.frag, body), "C05.write.data.payload")
		vAssert((f.flags&1 != 0) == b1 && (f.flags&8 != 0) == b2 && f.flags&^9 == 0, "C05.write.data.flags")
	case 1:
		vAssert(refBytesEq(f.frag, body), "C05.write.headers.fragment")
		vAssert((f.flags&1 != 0) == b1 && (f.flags&4 != 0) == b2 && (f.flags&8 != 0) == b3 && f.flags&^0xd == 0, "C05.write.headers.flags")
	case 2:
		vAssert(f.dep == v32&(1<<31-1) && f.weight == w8 && f.flags == 0, "C05.write.priority")
	case 3:
		vAssert(f.code == v32 && f.flags == 0, "C05.write.rst")
	case 4:
		vAssert(f.ack == b1 && f.flags&^1 == 0, "C05.write.settings.ack")
	case 5:
		vAssert(f.promise == v32&(1<<31-1), "C05.write.push.promised-id")
		vAssert(refBytesEq(f.frag, body), "C05.write.push.fragment")
	case 6:
		vAssert(refBytesEq(f.ping[:], pingData) && f.ack == b1 && f.flags&^1 == 0, "C05.write.ping")
	case 7:
		vAssert(f.last == v32&(1<<31-1) && f.code == wantCode && refBytesEq(f.debug, body) && f.flags == 0, "C05.write.goaway")
	case 8:
		vAssert(f.incr == v32 && f.flags == 0, "C05.write.window-update")
	case 9:
		vAssert(refBytesEq(f.frag, body) && (f.flags&4 != 0) == b1 && f.flags&^4 == 0, "C05.write.continuation")
	}
	// padding octets are zero (RFC 7540 6.1: MUST be set to zero when sending)
	if f.padLen > 0 {
		z := true
		for i := len(out) - f.padLen; i < len(out); i++ {
			z = vAnd(z, out[i] == 0)
		}
		vAssert(z, "C05.write.padding-zero")
	}
	vCover("C05.write.padded-data", typ == 0 && f.padLen >= 9 && n == 2)
	vCover("C05.write.goaway", typ == 7 && n == 1)
}

// A frame that was parsed and is written out again (what a proxy does) is
// the same frame: the reference reading of the output equals the reference
// reading of the input, for every well-formed HEADERS (any padding, with or
// without a priority section), DATA, PRIORITY, RST_STREAM, PING, GOAWAY,
// WINDOW_UPDATE and CONTINUATION frame with up to 8 (quick) / 12 (thorough)
// payload bytes. SETTINGS is in C18, PUSH_PROMISE in VerifH_C05_write.
//
//verif:harness prop=C05 unwind=300 timeout=600
func VerifH_C05_reserialize() {
	plen := vRange(0, vPick(8, 12))
	hdr := vBytes(9)
	vAssume(int(hdr[0])<<16|int(hdr[1])<<8|int(hdr[2]) == plen)
	vAssume(hdr[3] <= 9 && hdr[3] != 4 && hdr[3] != 5)
	in := append(append([]byte(nil), hdr...), vBytes(plen)...)
	f, _, st := refParseFrame(in, 0)
	vAssume(st == refFrOK)
	fr, err := ReadFrameFrom(vNewReader(in))
	vAssume(err == nil) // C16 decides that it is
	out := vWriteFrame(fr)
	g, used, st2 := refParseFrame(out, 0)
	vAssert(st2 == refFrOK && used == len(out), "C05.reser.well-formed")
	if st2 != refFrOK {
		return
	}
	vAssert(g.typ == f.typ && g.stream == f.stream, "C05.reser.header")
	vAssert(g.flags&^0x8 == f.flags&^0x8, "C05.reser.flags")
	vAssert(refBytesEq(g.frag, f.frag), "C05.reser.fragment")
	vAssert(g.hasPrio == f.hasPrio && g.dep == f.dep && g.weight == f.weight, "C05.reser.priority-section")
	vAssert(g.code == f.code && g.last == f.last && refBytesEq(g.debug, f.debug), "C05.reser.codes")
	vAssert(g.incr == f.incr && g.ack == f.ack && g.ping == f.ping, "C05.reser.scalars")
	vCover("C05.reser.headers-prio", f.typ == 1 && f.hasPrio && len(f.frag) == 2)
}

// A HEADERS frame whose header block fragment is longer than one frame may
// be: fragment lengths at the multiples of 16384 and one above (quick), also
// one below and 49152 (thorough), with and without priority fields and END_STREAM. On
// the wire (reference frame parser): HEADERS first, then CONTINUATION frames
// directly after it on the same stream, no frame above 16384 octets,
// END_HEADERS on the last frame and only there, END_STREAM and the priority
// fields on the HEADERS frame only, and the fragments concatenate to the block.
//
//verif:harness prop=C05,C18 unwind=64 timeout=600
func VerifH_C05_split() {
	n := [7]int{16384, 16385, 32768, 32769, 16383, 32767, 49152}[vRange(0, vPick(3, 6))]
	prio := vBool()
	end := vBool()
	blk := make([]byte, n)
	for i := range blk {
		blk[i] = byte(i*7 + 1)
	}
	fr := AcquireFrameHeader()
	fr.SetStream(5)
	h := AcquireFrame(FrameHeaders).(*Headers)
	h.SetHeaders(blk)
	h.SetEndHeaders(true)
	h.SetEndStream(end)
	if prio {
		// as a frame that was read with priority fields and is written again
		h.priority = true
		h.SetStream(3)
		h.SetWeight(9)
	}
	fr.SetBody(h)
	bw, w := vNewWriter()
	_, err := fr.WriteTo(bw)
	vAssert(err == nil && bw.Flush() == nil, "C05.split.written")
	b := w.out
	frames, got, endHeaders := 0, 0, 0
	for len(b) > 0 {
		f, used, st := refParseFrame(b, 0)
		vAssert(st == refFrOK, "C05.split.parses")
		if st != refFrOK {
			return
		}
		vAssert(f.length <= 16384, "C05.split.frame-size")
		vAssert(f.stream == 5, "C05.split.stream")
		if frames == 0 {
			vAssert(f.typ == 0x1, "C05.split.headers-first")
			vAssert((f.flags&0x1 != 0) == end, "C05.split.end-stream-on-headers")
			vAssert(f.hasPrio == prio && (!prio || (f.dep == 3 && f.weight == 9)), "C05.split.priority-fields")
		} else {
			vAssert(f.typ == 0x9, "C05.split.then-continuation")
			vAssert(f.flags&^0x4 == 0, "C05.split.continuation-flags")
		}
		vAssert(endHeaders == 0, "C05.split.nothing-after-end-headers")
		if f.flags&0x4 != 0 {
			endHeaders++
		}
		for i := range f.frag {
			if f.frag[i] != byte((got+i)*7+1) {
				vAssert(false, "C05.split.fragments-concatenate-to-the-block")
			}
		}
		got += len(f.frag)
		frames++
		b = b[used:]
	}
	vAssert(endHeaders == 1, "C05.split.end-headers-exactly-once")
	vAssert(got == n, "C05.split.whole-block")
	vCover("C05.split.three-frames", frames == 3 && n == 32769)
}
