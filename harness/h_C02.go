package http2

import (
	"fmt"
	"io"

	"github.com/valyala/fasthttp"
)

// C02 — the client sends each request intact and gives each caller exactly
// its own response.

// Two requests through the real write loop and read loop. The wire carries
// each as HEADERS (with :method, :path, :scheme, :authority decoded by the
// reference HPACK decoder) on fresh odd increasing stream ids, then DATA for
// the body with END_STREAM once. The scripted server answers in either order,
// with each response header block whole or cut at any byte into HEADERS +
// CONTINUATION, and DATA frames interleaved across the two streams: each
// caller is resolved exactly once, without error, with its own status and
// body.
//
//verif:harness prop=C02 unwind=200 timeout=600
func VerifH_C02_pair() {
	cl := vStartClient()
	a := cl.request("GET", "/a", nil)
	b := cl.request("POST", "/b", []byte("hello"))
	frames := cl.sent()
	// what went out
	t := &refTable{max: 4096, limit: 4096}
	var ids []uint32
	paths := map[uint32]string{}
	methods := map[uint32]string{}
	bodies := map[uint32]string{}
	ends := map[uint32]int{}
	for _, f := range frames {
		switch f.typ {
		case 0x1:
			ids = append(ids, f.stream)
			vAssert(f.flags&0x4 != 0, "C02.pair.request-headers-complete")
			for pos := 0; pos < len(f.frag); {
				fld, upd, used, st := refHpackRep(t, pos == 0, f.frag[pos:])
				vAssert(st == refOK, "C02.pair.valid-header-block")
				if st != refOK {
					return
				}
				pos += used
				if upd {
					continue
				}
				name := string(fld.name)
				if fld.sidx != 0 {
					name = refStatic[fld.sidx-1][0]
				}
				val := string(fld.value)
				if fld.whole {
					val = refStatic[fld.sidx-1][1]
				}
				if name == ":path" {
					paths[f.stream] = val
				}
				if name == ":method" {
					methods[f.stream] = val
				}
			}
			if f.flags&0x1 != 0 {
				ends[f.stream]++
			}
		case 0x0:
			bodies[f.stream] += string(f.frag)
			if f.flags&0x1 != 0 {
				ends[f.stream]++
			}
		}
	}
	vAssert(len(ids) == 2 && ids[0] == 1 && ids[1] == 3, "C02.pair.fresh-odd-increasing-stream-ids")
	vAssert(paths[1] == "/a" && methods[1] == "GET" && paths[3] == "/b" && methods[3] == "POST", "C02.pair.requests-intact")
	vAssert(bodies[1] == "" && bodies[3] == "hello", "C02.pair.bodies-intact")
	vAssert(ends[1] == 1 && ends[3] == 1, "C02.pair.end-stream-once")

	// the server's answer: stream 3 first or stream 1 first, header blocks cut or not
	first := uint32(1 + 2*vRange(0, 1))
	second := 4 - first
	blk := map[uint32][]byte{1: vRespBlock(false, 'A'), 3: vRespBlock(true, 'B')}
	cut := vRange(0, len(blk[first])) // len = not cut
	send := func(id uint32, cutAt int) {
		bb := blk[id]
		if cutAt >= len(bb) || cutAt == 0 {
			cl.feed(vFrame(0x1, 0x4, id, bb))
		} else {
			cl.feed(vFrame(0x1, 0x0, id, bb[:cutAt]))
			cl.feed(vFrame(0x9, 0x4, id, bb[cutAt:]))
		}
	}
	send(first, cut)
	cl.feed(vFrame(0x0, 0x0, first, []byte{'x', byte('0' + first)}))
	send(second, len(blk[second]))
	cl.feed(vFrame(0x0, 0x1, second, []byte{'y', byte('0' + second)}))
	cl.feed(vFrame(0x0, 0x1, first, []byte{'z'}))

	da, ea := a.outcome()
	db, eb := b.outcome()
	vNote(fmt.Sprintf("first=%d cut=%d a=(%v,%v) b=(%v,%v)", first, cut, da, ea, db, eb))
	vAssert(da && db, "C02.pair.both-callers-resolved")
	vAssert(ea == nil && eb == nil, "C02.pair.no-error-for-a-conforming-server")
	if ea == nil && eb == nil && da && db {
		vAssert(a.res.StatusCode() == 200 && b.res.StatusCode() == 404, "C02.pair.own-status")
		wantA, wantB := "x1z", "y3"
		if first == 3 {
			wantA, wantB = "y1", "x3z"
		}
		vAssert(string(a.res.Body()) == wantA && string(b.res.Body()) == wantB, "C02.pair.own-body")
	}
	d2, _ := a.outcome()
	vAssert(!d2, "C02.pair.resolved-once")
	vCover("C02.pair.cut", cut == 3 && da && db)
	vCover("C02.pair.reordered", first == 3 && da)
}

// One request with user fields: a mixed-case name, a name that ends in an
// arbitrary token character, and every connection-specific field. On the wire
// (reference frame parser and HPACK decoder) the block holds the four
// pseudo-headers first, then exactly the user's fields minus the
// connection-specific ones, names lower-cased and otherwise untouched, values
// untouched, and the body bytes. The response comes back as a padded HEADERS
// frame with priority fields and padded DATA frames: the caller gets the
// status, the field and the body without the padding.
//
//verif:harness prop=C02 unwind=300 timeout=600
func VerifH_C02_wire() {
	cl := vStartClient()
	c := vU8()
	vAssume(refIsTchar(c))
	req, res := &fasthttp.Request{}, &fasthttp.Response{}
	req.Header.SetMethod("PUT")
	req.URI().SetHost("h")
	req.URI().SetPath("/w")
	req.URI().SetScheme("https")
	req.Header.Set("X-Mixed", "Val")
	req.Header.Set(string([]byte{'y', '_', c}), "v")
	req.Header.Set("Connection", "keep-alive")
	req.Header.Set("Keep-Alive", "timeout=5")
	req.Header.Set("Proxy-Connection", "keep-alive")
	req.Header.Set("Upgrade", "h2c")
	req.SetBody([]byte("data"))
	ctx := &Ctx{Request: req, Response: res, Err: make(chan error, 1)}
	cl.c.Write(ctx)
	vSettle()
	k := &vCall{ctx: ctx, req: req, res: res}

	t := &refTable{max: 4096, limit: 4096}
	regular, pseudo, mixed, odd, forbidden, late := 0, 0, false, false, false, false
	body := ""
	for _, f := range cl.sent() {
		vAssert(f.stream == 1, "C02.wire.stream-id")
		if f.typ == 0x0 {
			body += string(f.frag)
			continue
		}
		if f.typ != 0x1 {
			continue
		}
		for pos := 0; pos < len(f.frag); {
			fld, upd, used, st := refHpackRep(t, pos == 0, f.frag[pos:])
			vAssert(st == refOK, "C02.wire.valid-header-block")
			if st != refOK {
				return
			}
			pos += used
			if upd {
				continue
			}
			if fld.sidx != 0 {
				n := refStatic[fld.sidx-1][0]
				if n[0] == ':' {
					pseudo++
					late = late || regular > 0
				} else {
					regular++
					forbidden = forbidden || n == "connection" || n == "keep-alive" || n == "proxy-connection" || n == "upgrade" || n == "transfer-encoding"
				}
				continue
			}
			regular++
			name := fld.name
			switch {
			case len(name) == 3 && name[0] == 'y':
				odd = vAnd(name[1] == '_', vAnd(name[2] == refLowerByte(c), string(fld.value) == "v"))
			case string(name) == "x-mixed":
				mixed = string(fld.value) == "Val"
			case string(name) == "connection" || string(name) == "keep-alive" || string(name) == "proxy-connection" || string(name) == "upgrade":
				forbidden = true
			}
		}
	}
	vAssert(pseudo == 4 && !late, "C02.wire.pseudo-headers-first")
	vAssert(mixed, "C02.wire.name-lower-cased-value-kept")
	vAssert(odd, "C02.wire.name-otherwise-untouched")
	vAssert(!forbidden, "C02.wire.no-connection-specific-field")
	vAssert(body == "data", "C02.wire.body")

	blk := vRespBlock(false, 'r')
	hp := append([]byte{2, 0x80, 0, 0, 3, 200}, blk...) // pad length, exclusive dependency on 3, weight
	hp = append(hp, 0, 0)
	cl.feed(vFrame(0x1, 0x4|0x8|0x20, 1, hp))
	cl.feed(vFrame(0x0, 0x8, 1, []byte{1, 'o', 0}))
	cl.feed(vFrame(0x0, 0x8, 1, []byte{0}))
	cl.feed(vFrame(0x0, 0x9, 1, []byte{2, 'k', 0, 0}))
	done, err := k.outcome()
	vAssert(done && err == nil, "C02.wire.response-delivered")
	if done && err == nil {
		vAssert(res.StatusCode() == 200, "C02.wire.status")
		vAssert(string(res.Header.Peek("x-t")) == "r", "C02.wire.response-field")
		vAssert(string(res.Body()) == "ok", "C02.wire.body-without-padding")
	}
	vCover("C02.wire.done", done)
}

// A response header block - optionally starting with a dynamic table size
// update, then :status and a field inserted into the dynamic table - cut at any
// two bytes into HEADERS + CONTINUATION + CONTINUATION (or fewer frames), with
// END_STREAM on the HEADERS frame itself (no body) or on a DATA frame: the
// caller gets the status and the field, and a second response that refers to
// the inserted field by index decodes to it (the decoder saw the whole block).
//
//verif:harness prop=C02,C20 unwind=200 timeout=900
func VerifH_C02_block() {
	cl := vStartClient()
	a := cl.request("GET", "/a", nil)
	b := cl.request("GET", "/b", nil)
	cl.sent()
	upd := vBool()
	endOnHeaders := vBool()
	blk := []byte{0x88, 0x40, 0x03, 'x', '-', 't', 0x01, 'A'}
	if upd {
		blk = append([]byte{0x3f, 0xe1, 0x1f}, blk...) // size update to 4096
	}
	cut1 := vRange(0, len(blk))
	cut2 := vRange(cut1, len(blk))
	es := byte(0)
	if endOnHeaders {
		es = 0x1
	}
	switch {
	case cut1 == len(blk):
		cl.feed(vFrame(0x1, 0x4|es, 1, blk))
	case cut2 == len(blk):
		cl.feed(vFrame(0x1, es, 1, blk[:cut1]))
		cl.feed(vFrame(0x9, 0x4, 1, blk[cut1:]))
	default:
		cl.feed(vFrame(0x1, es, 1, blk[:cut1]))
		cl.feed(vFrame(0x9, 0x0, 1, blk[cut1:cut2]))
		cl.feed(vFrame(0x9, 0x4, 1, blk[cut2:]))
	}
	if !endOnHeaders {
		cl.feed(vFrame(0x0, 0x1, 1, []byte("ok")))
	}
	done, err := a.outcome()
	vNote(fmt.Sprintf("upd=%v endOnHeaders=%v cut1=%d cut2=%d done=%v err=%v", upd, endOnHeaders, cut1, cut2, done, err))
	vAssert(done && err == nil, "C02.block.response-delivered")
	if done && err == nil {
		vAssert(a.res.StatusCode() == 200, "C02.block.status")
		vAssert(string(a.res.Header.Peek("x-t")) == "A", "C02.block.field")
		if !endOnHeaders {
			vAssert(string(a.res.Body()) == "ok", "C02.block.body")
		}
	}
	// stream 3: :status 404 and the dynamic entry by index
	cl.feed(vFrame(0x1, 0x5, 3, []byte{0x8d, 0xbe}))
	d2, e2 := b.outcome()
	vAssert(d2 && e2 == nil, "C02.block.second-response-delivered")
	if d2 && e2 == nil {
		vAssert(b.res.StatusCode() == 404 && string(b.res.Header.Peek("x-t")) == "A", "C02.block.decoder-in-step")
	}
	vCover("C02.block.three-frames", cut1 > 0 && cut2 > cut1 && cut2 < len(blk) && done && upd && endOnHeaders)
}

// vFillReader is a request body stream of n octets, all equal to ch, handed
// out at most chunk octets per Read.
type vFillReader struct {
	ch    byte
	left  int
	chunk int
}

func (r *vFillReader) Read(p []byte) (int, error) {
	if r.left == 0 {
		return 0, io.EOF
	}
	n := r.chunk
	if n > r.left {
		n = r.left
	}
	if n > len(p) {
		n = len(p)
	}
	for i := 0; i < n; i++ {
		p[i] = r.ch
	}
	r.left -= n
	return n, nil
}

// Two requests with streamed bodies (6 octets of 'A' with declared length, 7
// octets of 'B' with unknown length, read 6 or 3 octets at a time) on a
// connection whose server allows 4 octets per stream: each body stops
// part-way, and goes on when the server sends WINDOW_UPDATE for its stream,
// in either order. Each stream carries its own octets, all of them, in order,
// with END_STREAM exactly once.
//
//verif:harness prop=C02,C07 unwind=300 timeout=600
func VerifH_C02_streams() {
	cl := vStartClient()
	cl.feed(vFrame(0x4, 0x0, 0, []byte{0, 4, 0, 0, 0, 4}))
	chunk := [2]int{6, 3}[vRange(0, 1)]
	a := cl.requestStream("/a", &vFillReader{ch: 'A', left: 6, chunk: chunk}, 6)
	b := cl.requestStream("/b", &vFillReader{ch: 'B', left: 7, chunk: chunk}, -1)
	first := uint32(1 + 2*vRange(0, 1))
	for round := 0; round < 2; round++ {
		cl.feed(vFrame(0x8, 0x0, first, []byte{0, 0, 0, 2}))
		cl.feed(vFrame(0x8, 0x0, 4-first, []byte{0, 0, 0, 2}))
	}
	bodies := map[uint32]string{}
	ends := map[uint32]int{}
	sentSoFar := map[uint32]int{}
	for _, f := range cl.sent() {
		if f.typ != 0x0 {
			continue
		}
		vAssert(ends[f.stream] == 0, "C02.streams.nothing-after-end-stream")
		bodies[f.stream] += string(f.frag)
		sentSoFar[f.stream] += len(f.frag)
		if f.flags&0x1 != 0 {
			ends[f.stream]++
		}
	}
	vNote(fmt.Sprintf("chunk=%d first=%d bodies=%q ends=%v", chunk, first, bodies, ends))
	vAssert(bodies[1] == "AAAAAA", "C02.streams.first-body-intact")
	vAssert(bodies[3] == "BBBBBBB"[:len(bodies[3])] && len(bodies[3]) <= 7, "C02.streams.second-body-its-own-octets")
	vAssert(ends[1] == 1, "C02.streams.first-body-ended")
	// stream 3 was granted 4+2+2 = 8 octets: all 7 fit
	vAssert(bodies[3] == "BBBBBBB" && ends[3] == 1, "C02.streams.second-body-intact-and-ended")
	cl.feed(vFrame(0x1, 0x5, 1, vRespBlock(false, 'a')))
	cl.feed(vFrame(0x1, 0x5, 3, vRespBlock(true, 'b')))
	da, ea := a.outcome()
	db, eb := b.outcome()
	vAssert(da && db && ea == nil && eb == nil, "C02.streams.both-answered")
	vCover("C02.streams.small-chunks", chunk == 3 && da)
}

// A request is given up by its caller (Conn.Cancel, or its response timer
// fires) while the server's answer to it is already on the way. That answer's
// header block - whole, or cut at any byte into HEADERS + CONTINUATION -
// inserts an entry into the HPACK dynamic table, as any block may. The answer
// to the other request in flight refers to that entry by index, as a
// conforming server's encoder will: its caller gets exactly that response.
//
//verif:harness prop=C02,C09 unwind=300 timeout=600
func VerifH_C02_cancel() {
	cl := vStartClient()
	a := cl.request("GET", "/a", nil)
	b := cl.request("GET", "/b", nil)
	cl.sent()
	if vBool() {
		_ = cl.c.Cancel(a.ctx)
	} else {
		a.ctx.fireTimeout()
	}
	vSettle()
	blk := []byte{0x88, 0x40, 0x03, 'x', '-', 't', 0x01, 'A'}
	cut := vRange(0, len(blk))
	if cut == len(blk) {
		cl.feed(vFrame(0x1, 0x4, 1, blk))
	} else {
		cl.feed(vFrame(0x1, 0x0, 1, blk[:cut]))
		cl.feed(vFrame(0x9, 0x4, 1, blk[cut:]))
	}
	cl.feed(vFrame(0x0, 0x1, 1, []byte("late")))
	cl.feed(vFrame(0x1, 0x5, 3, []byte{0x8d, 0xbe}))
	db, eb := b.outcome()
	vNote(fmt.Sprintf("cut=%d b done=%v err=%v", cut, db, eb))
	vAssert(db && eb == nil, "C02.cancel.other-request-answered")
	if db && eb == nil {
		vAssert(b.res.StatusCode() == 404, "C02.cancel.own-status")
		vAssert(string(b.res.Header.Peek("x-t")) == "A", "C02.cancel.field-from-the-shared-table")
	}
	rst := false
	for _, f := range cl.sent() {
		rst = rst || (f.typ == 0x3 && f.stream == 1)
	}
	vAssert(rst, "C02.cancel.server-is-told")
	vCover("C02.cancel.cut", cut == 4 && db)
}
