package http2

import (
	"bufio"

	"github.com/valyala/fasthttp"
)

// C07 — the client never sends DATA beyond the server's windows, and
// finishes.

// vPendingConn sets up a client connection with one request (stream 1) whose
// buffered body of L bytes is waiting to go out.
var vC07Out *vWriter

// vSentFrames is what sendPending wrote: the frames recorded by the WriteTo
// stub under the executor, the frames parsed back from the socket bytes
// natively.
func vSentFrames(c *Conn) []vSentFrame {
	if vSymbolic() {
		return vSent
	}
	_ = c.bw.Flush()
	var out []vSentFrame
	b := vC07Out.out
	for len(b) > 0 {
		f, used, st := refParseFrame(b, 0)
		if st != refFrOK {
			panic("verif: client wrote a malformed frame")
		}
		out = append(out, vSentFrame{kind: FrameType(f.typ), stream: f.stream, endStream: f.flags&1 != 0, data: f.frag})
		b = b[used:]
	}
	return out
}

func vPendingConn(L int, ws, wc int32) (*Conn, *pendingBody, []byte) {
	c := vNewConn()
	vC07Out = &vWriter{failAt: -1}
	c.bw = bufio.NewWriterSize(vC07Out, 256)
	req := &fasthttp.Request{}
	ctx := &Ctx{Request: req, Response: &fasthttp.Response{}, Err: make(chan error, 1)}
	ctx.conn.Store(c)
	ctx.streamID = 1
	c.reqQueued[1] = ctx
	c.openStreams = 1
	body := vAbstractBytes(L)
	pb := &pendingBody{ctx: ctx, body: body, window: ws, size: -1}
	c.pending[1] = pb
	c.connWindow = wc
	return c, pb, body
}

// One sendPending call for a buffered request body: arbitrary stream and
// connection send windows (any int32), arbitrary remaining body of 1..49152
// bytes, any SETTINGS_MAX_FRAME_SIZE the server may legally have sent
// (16384..2^24-1). Every DATA frame is at most that size, the frames are
// consecutive pieces of the body and add up to at most min(windows), both
// windows go down by exactly what was sent, END_STREAM goes out exactly once
// and only with the last byte, and the body stays queued exactly when bytes
// remain.
//
//verif:harness prop=C07 unwind=8 timeout=300 use=vStubDataSetDataAlias,vStubWriteToRecord
func VerifH_C07_pend() {
	L := vInt()
	vAssume(L >= 1 && L <= 49152)
	ws, wc := int32(vU32()), int32(vU32())
	c, _, body := vPendingConn(L, ws, wc)
	mfs := vU32()
	vAssume(mfs >= 1<<14 && mfs <= 1<<24-1)
	c.maxFrameSize = mfs
	vSent = nil

	err := c.sendPending(1)

	vAssert(err == nil, "C07.pend.no-error")
	sent, ended := 0, false
	frames := vSentFrames(c)
	for _, f := range frames {
		vAssert(f.kind == FrameData && f.stream == 1, "C07.pend.data-on-the-stream")
		vAssert(!ended, "C07.pend.nothing-after-end-stream")
		n := len(f.data)
		vAssert(uint32(n) <= mfs, "C07.pend.frame-size")
		vAssert(n > 0 || f.endStream, "C07.pend.no-empty-frame")
		vAssert(vChunkIs(f.data, body, sent), "C07.pend.contiguous-body-bytes")
		sent += n
		ended = f.endStream
	}
	allow := int64(ws)
	if int64(wc) < allow {
		allow = int64(wc)
	}
	if allow < 0 {
		allow = 0
	}
	vAssert(int64(sent) <= allow, "C07.pend.within-windows")
	want := int64(L)
	if allow < want {
		want = allow
	}
	vAssert(int64(sent) == want, "C07.pend.sends-what-the-windows-allow")
	vAssert(ended == (sent == L), "C07.pend.end-stream-with-last-byte")
	pb, still := c.pending[1]
	vAssert(still == (sent < L), "C07.pend.queued-iff-bytes-remain")
	if still {
		vAssert(int64(pb.window) == int64(ws)-int64(sent) && len(pb.body) == L-sent, "C07.pend.stream-ledger")
	}
	vAssert(int64(c.connWindow) == int64(wc)-int64(sent), "C07.pend.conn-ledger")
	vCover("C07.pend.split", len(frames) == 3 && ended)
	vCover("C07.pend.blocked", sent == 0 && still)
	vCover("C07.pend.partial", sent > 0 && still)
}

// addWindow and applyInitialWindow: exact arithmetic for every window and
// every increment/new initial size, and a window that would pass 2^31-1 never
// turns into a larger permission than the peer gave.
//
//verif:harness prop=C07 unwind=8
func VerifH_C07_grow() {
	w, cw := int32(vU32()), int32(vU32())
	c, pb, _ := vPendingConn(1, w, cw)
	inc := vU32()
	vAssume(inc >= 1 && inc <= 1<<31-1)
	which := vRange(0, 2)
	switch which {
	case 0:
		c.addWindow(1, int32(inc))
		if int64(w)+int64(inc) <= 1<<31-1 {
			vAssert(int64(pb.window) == int64(w)+int64(inc), "C07.grow.stream-exact")
		} else {
			vAssert(int64(pb.window) <= int64(w)+int64(inc), "C07.grow.stream-overflow-not-larger")
		}
		vAssert(c.connWindow == cw, "C07.grow.stream-update-leaves-connection")
	case 1:
		c.addWindow(0, int32(inc))
		if int64(cw)+int64(inc) <= 1<<31-1 {
			vAssert(int64(c.connWindow) == int64(cw)+int64(inc), "C07.grow.conn-exact")
		} else {
			vAssert(int64(c.connWindow) <= int64(cw)+int64(inc), "C07.grow.conn-overflow-not-larger")
		}
		vAssert(pb.window == w, "C07.grow.conn-update-leaves-stream")
	case 2:
		old := int32(vU32())
		vAssume(old >= 0)
		c.streamWindow = old
		vAssume(int64(w) <= int64(old) && int64(w) >= int64(old)-(1<<31-1)) // spent between 0 and 2^31-1 of it
		size := int32(inc)
		c.applyInitialWindow(size)
		vAssert(int64(pb.window) == int64(w)+int64(size)-int64(old), "C07.grow.initial-window-delta")
		vAssert(c.streamWindow == size && c.connWindow == cw, "C07.grow.initial-window-scope")
	}
	select {
	case <-c.winCh:
	default:
		vAssert(false, "C07.grow.write-loop-woken")
	}
	vCover("C07.grow.negative-after-decrease", which == 2 && pb.window < 0)
}

// One sendPending call for a streamed request body whose reader returns
// arbitrary results within the io.Reader contract (0..16384 bytes per read,
// io.EOF with or after the last bytes, or an error) for up to 2 (quick) / 3
// (thorough) reads, declared length arbitrary or unknown, windows any int32:
// DATA stays within both windows and the frame size, nothing the reader
// delivered is dropped or sent twice while window remains, and END_STREAM goes
// out exactly once when the body is finished.
//
//verif:harness prop=C07,C02 unwind=10 timeout=600 timeoutT=3000 use=vStubDataSetDataAlias,vStubWriteToRecord
func VerifH_C07_stream() {
	ws, wc := int32(vU32()), int32(vU32())
	c, pb, _ := vPendingConn(1, ws, wc)
	rd := &vScriptReader{}
	reads := vPick(2, 3)
	rd.pos = 3 - reads
	for i := 3 - reads; i < 3; i++ {
		rd.n[i] = vInt()
		vAssume(rd.n[i] >= 0 && rd.n[i] <= 16384)
		rd.eof[i] = vBool()
		rd.fail[i] = vBool()
		vAssume(!(rd.fail[i] && rd.eof[i]))
		vAssume(rd.n[i] > 0 || rd.eof[i] || rd.fail[i])
	}
	pb.body = nil
	pb.stream = rd
	pb.buf = vAbstractBytes(16384)
	pb.size = int64(vInt())
	vAssume(pb.size >= -1 && pb.size <= 1<<20)
	vAssume(pb.size < 0 || int64(rd.n[0]+rd.n[1]+rd.n[2]) <= pb.size)
	pb.drained = pb.size == 0
	vSent = nil

	err := c.sendPending(1)

	vAssert(err == nil, "C07.stream.no-error")
	frames := vSentFrames(c)
	sent, ended, rst := 0, 0, false
	wsl, wcl := int64(ws), int64(wc)
	for _, f := range frames {
		vAssert(f.stream == 1, "C07.stream.on-the-stream")
		if f.kind == FrameResetStream {
			rst = true
			continue
		}
		vAssert(f.kind == FrameData && ended == 0, "C07.stream.nothing-after-end-stream")
		n := int64(len(f.data))
		vAssert(n <= 16384, "C07.stream.frame-size")
		vAssert(n == 0 || (n <= wsl && n <= wcl), "C07.stream.within-windows")
		wsl, wcl = wsl-n, wcl-n
		sent += int(n)
		if f.endStream {
			ended++
		}
	}
	// a reset goes through c.out, not through the recorded writer
	for _, fr := range vDrainOut(c) {
		if _, ok := fr.Body().(*RstStream); ok {
			rst = true
		}
	}
	vAssert(sent <= rd.given, "C07.stream.only-bytes-read")
	_, still := c.pending[1]
	if !still && !rst {
		vAssert(ended == 1, "C07.stream.finished-means-end-stream")
		vAssert(sent == rd.given, "C07.stream.every-byte-read-was-sent")
	}
	if still {
		vAssert(ended == 0, "C07.stream.still-pending-means-not-ended")
		vAssert(wsl <= 0 || wcl <= 0, "C07.stream.stops-only-when-a-window-is-exhausted")
	}
	vCover("C07.stream.eof-with-data", ended == 1 && sent > 0 && rd.pos == 3-reads+1)
	vCover("C07.stream.reader-error", rst)
}
