package http2

// C04 — what the HPACK encoder emits decodes back to the same list.

// appendInt against the RFC 7541 5.1 reference decoder: every prefix size,
// every 64-bit value, after any 0-2 byte prefix whose last byte has the
// integer's prefix bits clear (which is how every caller uses it).
//
//verif:harness prop=C04 unwind=16
func VerifH_C04_int() {
	bits := vU8()
	idx := vU64()
	vAssume(bits >= 1 && bits <= 8)
	pre := vBytes(vRange(0, 2))
	start := 0
	var high byte
	if len(pre) > 0 {
		start = len(pre) - 1
		vAssume(pre[start]&(byte(1)<<bits-1) == 0)
		high = pre[start]
	}
	out := appendInt(append([]byte(nil), pre...), bits, idx)
	vAssert(len(out) > start, "C04.int.nonempty")
	for i := 0; i < start; i++ {
		vAssert(out[i] == pre[i], "C04.int.prefix-kept")
	}
	lo, hi, used, st := refReadInt(uint(bits), out[start:])
	vAssert(st == refOK, "C04.int.complete")
	vAssert(hi == 0 && lo == idx, "C04.int.roundtrip")
	vAssert(used == len(out)-start, "C04.int.no-trailing-bytes")
	vAssert(out[start]&^(byte(1)<<bits-1) == high, "C04.int.high-bits-kept")
	vCover("C04.int.multibyte", len(out)-start == 3)
	vCover("C04.int.max", idx == ^uint64(0))
}

// One AppendHeader call from an arbitrary small encoder state that is in sync
// with a reference decoder (0..2 dynamic entries, arbitrary limits, an
// optional pending table-size change), for an arbitrary field: name is
// arbitrary bytes (0..2) or one of five static-table names, value arbitrary
// bytes (0..2) or that entry's static value; store and sensitive flags
// arbitrary; DisableDynamicTable arbitrary; Huffman off. The bytes emitted
// must be one valid RFC 7541 block prefix that the reference decoder turns
// back into exactly this field, with the two dynamic tables still equal.
//
//verif:harness prop=C04 unwind=24 timeout=600
func VerifH_C04_step() {
	hp, t := vC03State(vRange(0, 2))
	hp.DisableCompression = true
	hp.DisableDynamicTable = vBool()
	if vBool() {
		ns := uint32(vU8())
		hp.SetMaxTableSize(ns)
		t.limit = ns // the peer advertised ns; its decoder still holds the old table
	}
	var key, value []byte
	sel := vRange(0, 5)
	names := [6]int{0, 4, 32, 16, 2, 23} // :path, cookie, accept-encoding, :method, authorization
	if sel == 0 {
		key = vBytes(vRange(0, 2))
	} else {
		key = []byte(refStatic[names[sel]-1][0])
	}
	if sel != 0 && vBool() {
		value = []byte(refStatic[names[sel]-1][1])
	} else {
		value = vBytes(vRange(0, 2))
	}
	store := vBool()
	hf := &HeaderField{sensible: vBool()}
	hf.SetBytes(key, value)
	pre := vBytes(vRange(0, 1))

	out := hp.AppendHeader(append([]byte(nil), pre...), hf, store)

	vAssert(len(out) > len(pre), "C04.step.emits")
	for i := range pre {
		vAssert(out[i] == pre[i], "C04.step.prefix-kept")
	}
	blk := out[len(pre):]
	pos, got := 0, false
	var f refField
	for pos < len(blk) && !got {
		ff, upd, used, st := refHpackRep(t, true, blk[pos:])
		vAssert(st == refOK, "C04.step.valid-block")
		if st != refOK {
			return
		}
		pos += used
		if !upd {
			f, got = ff, true
		}
	}
	vAssert(got, "C04.step.one-field")
	vAssert(pos == len(blk), "C04.step.no-trailing-bytes")
	if got {
		vAssert(refFieldIs(&f, key, value), "C04.step.same-field")
		if hf.sensible {
			vAssert(f.never, "C04.step.sensitive-is-never-indexed")
		}
	}
	vAssert(!hp.pendingSizeUpdate, "C04.step.size-change-announced")
	vAssert(refTableIs(t, hp), "C04.step.tables-in-sync")
	vAssert(hp.maxTableSize == t.max, "C04.step.same-max")
	vAssert(hp.DynamicSize() <= hp.maxTableSize && hp.maxTableSize <= t.limit, "C04.step.within-peer-limit")
	vCover("C04.step.indexed", got && f.whole)
	vCover("C04.step.inserted", got && len(t.ents) > 0 && !hf.sensible && sel == 0 && len(key) == 2)
	vCover("C04.step.update", len(blk) > 0 && blk[0]&0xe0 == 0x20)
}
