package http2

// C04 — what the HPACK encoder emits decodes back to the same list.

// appendInt against the RFC 7541 5.1 reference decoder: every prefix size,
// every 64-bit value, after any 0-2 byte prefix whose last byte has the
// integer's prefix bits clear (which is how every caller uses it).
//
//verif:harness prop=C04 unwind=16
func VerifH_C04_int() {
	bits := vU8()
	idx := vU64()
	vAssume(bits >= 1 && bits <= 8)
	pre := vBytes(vRange(0, 2))
	start := 0
	var high byte
	if len(pre) > 0 {
		start = len(pre) - 1
		vAssume(pre[start]&(byte(1)<<bits-1) == 0)
		high = pre[start]
	}
	out := appendInt(append([]byte(nil), pre...), bits, idx)
	vAssert(len(out) > start, "C04.int.nonempty")
	for i := 0; i < start; i++ {
		vAssert(out[i] == pre[i], "C04.int.prefix-kept")
	}
	lo, hi, used, st := refReadInt(uint(bits), out[start:])
	vAssert(st == refOK, "C04.int.complete")
	vAssert(hi == 0 && lo == idx, "C04.int.roundtrip")
	vAssert(used == len(out)-start, "C04.int.no-trailing-bytes")
	vAssert(out[start]&^(byte(1)<<bits-1) == high, "C04.int.high-bits-kept")
	vCover("C04.int.multibyte", len(out)-start == 3)
	vCover("C04.int.max", idx == ^uint64(0))
}
