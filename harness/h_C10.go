package http2

import (
	"bufio"
	"fmt"

	"github.com/valyala/fasthttp"
)

// C10 — GOAWAY tells the truth and connection errors end the connection.

// vConnOffence returns the wire bytes of a connection-scoped protocol
// violation and the codes RFC 7540 allows in the GOAWAY that answers it.
func vConnOffence(which int) (wire []byte, codes []ErrorCode) {
	switch which {
	case 0: // CONTINUATION without a header block in progress (6.10)
		return vFrame(0x9, 0x4, 1, nil), []ErrorCode{ProtocolError}
	case 1: // SETTINGS_ENABLE_PUSH = 2 (6.5.2)
		return vFrame(0x4, 0x0, 0, []byte{0, 2, 0, 0, 0, 2}), []ErrorCode{ProtocolError}
	case 2: // connection window above 2^31-1 (6.9.1)
		return vFrame(0x8, 0x0, 0, []byte{0x7f, 0xff, 0xff, 0xff}), []ErrorCode{FlowControlError}
	case 3: // HPACK index past the table (RFC 7541 2.3.3, RFC 7540 4.3)
		return vFrame(0x1, 0x5, 9, []byte{0xff, 0x7f}), []ErrorCode{CompressionError}
	case 4: // PING with a stream id (6.7)
		return vFrame(0x6, 0x0, 1, []byte{1, 2, 3, 4, 5, 6, 7, 8}), []ErrorCode{ProtocolError}
	default: // RST_STREAM of the wrong size (6.4)
		return vFrame(0x3, 0x0, 1, []byte{0, 0, 8}), []ErrorCode{FrameSizeError}
	}
}

// Requests on streams 1 and 3 (handlers returning at once, or still running),
// then one of six connection-scoped violations, then another request on
// stream 5: the GOAWAY names a code the RFC allows and a last-stream-id that
// is not below any stream whose request was handed to a handler, and nothing
// above it is dispatched afterwards.
//
//verif:harness prop=C10 unwind=64 timeout=600
func VerifH_C10_goaway() {
	s := vStartServer(8)
	s.hold = vBool()
	nreq := vRange(0, 2)
	for i := 0; i < nreq; i++ {
		id := uint32(1 + 2*i)
		s.send(vFrame(0x1, 0x5, id, vReqBlock(byte('0'+id))))
	}
	s.replies()
	which := vRange(0, 5)
	wire, codes := vConnOffence(which)
	s.send(wire)
	r := vClassify(s.replies())
	before := len(s.handled)
	vNote(fmt.Sprintf("offence %d after %d requests hold=%v: goaway=%v code=%d last=%d handled=%v", which, nreq, s.hold, r.goaway, r.goawayCode, r.goawayLast, s.handled))
	if r.goaway {
		okCode := false
		for _, c := range codes {
			okCode = okCode || r.goawayCode == c
		}
		vAssert(okCode, "C10.goaway.code")
		highest := uint32(0)
		if before > 0 {
			highest = uint32(2*before - 1)
		}
		vAssert(r.goawayLast >= highest, "C10.goaway.last-stream-id-covers-dispatched")
	}
	// the peer has not seen the GOAWAY yet and opens another stream
	s.send(vFrame(0x1, 0x5, 11, vReqBlock('b')))
	late := vClassify(s.replies())
	vAssert(len(s.handled) == before, "C10.goaway.nothing-dispatched-after-a-connection-error")
	vAssert(late.headers[11] == 0, "C10.goaway.no-response-above-last-stream-id")
	// let the running handlers finish
	for i := 0; i < before; i++ {
		s.gate <- struct{}{}
	}
	vSettle()
	vPoolsSane("C10.goaway")
	vCover("C10.goaway.after-two", nreq == 2 && r.goaway)
}

// After a connection error the peer keeps sending (more frames than the
// reader queue holds) and then goes away: both loops have returned, nothing is
// left blocked.
//
//verif:harness prop=C10 unwind=400 timeout=600
func VerifH_C10_return() {
	s := vStartServer(8)
	s.send(vFrame(0x1, 0x5, 1, vReqBlock('1')))
	which := vRange(0, 2)
	wire, _ := vConnOffence(which)
	s.send(wire)
	s.replies()
	// 130 connection-level WINDOW_UPDATE frames: each is forwarded to the
	// stream loop's queue of 128
	var flood []byte
	for i := 0; i < 130; i++ {
		flood = append(flood, vFrame(0x8, 0x0, 0, []byte{0, 0, 0, 1})...)
	}
	s.send(flood)
	close(s.in.ch) // the peer is gone
	vSettle()
	readDone := false
	select {
	case <-s.readErr:
		readDone = true
	default:
	}
	loopDone := false
	select {
	case <-s.loopEnd:
		loopDone = true
	default:
	}
	vAssert(readDone, "C10.return.read-loop-returns")
	vAssert(loopDone || !readDone, "C10.return.stream-loop-returns")
	vCover("C10.return.done", readDone)
}

// The real Serve, with all its goroutines as tasks, over a scripted socket:
// requests on streams 1 and 3 whose handlers return at once or are still
// running, then one of ten connection-scoped violations (the six above,
// CONTINUATION on a stream the peer has already ended, a stream window pushed past 2^31-1
// by a SETTINGS change after a WINDOW_UPDATE to exactly 2^31-1, HEADERS on a
// stream that has been used, RST_STREAM on an idle stream), then a
// request on stream 11 from a peer that has not seen the GOAWAY yet. The
// peer then stays connected and silent, or goes away. The GOAWAY covers every
// dispatched request and carries a code the RFC allows, nothing is dispatched
// afterwards, no request context a handler is still running with is handed out
// again, and Serve returns once the running handlers have finished, without
// the peer having to hang up.
//
//verif:harness prop=C10,C17 unwind=300 timeout=900
func VerifH_C10_serve() {
	which := vRange(0, 9)
	hold := vBool()
	stays := vBool()

	conn := &vConn{in: make(chan []byte, 4), done: make(chan struct{})}
	conn.w.failAt = -1
	gate := make(chan struct{}, 8)
	started := 0
	var running []*fasthttp.RequestCtx
	sc := vNewServerConn()
	sc.c = conn
	sc.br = bufio.NewReaderSize(conn, 256)
	sc.bw = bufio.NewWriterSize(conn, 256)
	sc.st.maxStreams = 8
	sc.maxHeaderList = DefaultMaxHeaderListSize
	sc.pingInterval = -1
	sc.h = func(ctx *fasthttp.RequestCtx) {
		started++
		if hold {
			running = append(running, ctx)
			<-gate
		}
		ctx.Response.SetStatusCode(200)
		ctx.Response.SetBody([]byte("ok"))
	}
	result := make(chan error, 1)
	go func() { result <- sc.Serve() }()

	var wire []byte
	wire = append(wire, vFrame(0x4, 0x0, 0, nil)...)
	wire = append(wire, vFrame(0x1, 0x5, 1, vReqBlock('1'))...)
	wire = append(wire, vFrame(0x1, 0x5, 3, vReqBlock('3'))...)
	conn.in <- wire
	vSettle()
	before := started

	var off []byte
	var codes []ErrorCode
	switch which {
	case 6: // CONTINUATION on a stream the peer has half-closed, no header block open (6.10)
		off, codes = vFrame(0x9, 0x4, 1, nil), []ErrorCode{StreamClosedError, ProtocolError}
	case 7: // stream window past 2^31-1 through SETTINGS_INITIAL_WINDOW_SIZE (6.9.2)
		off = vFrame(0x8, 0x0, 1, []byte{0x7f, 0xff, 0x00, 0x00}) // 65535 + 0x7fff0000 = 2^31-1
		off = append(off, vFrame(0x4, 0x0, 0, []byte{0, 4, 0, 1, 0, 0})...)
		codes = []ErrorCode{FlowControlError}
	case 8: // a second request on a stream that has been used (5.1, 5.1.1)
		off, codes = vFrame(0x1, 0x5, 1, vReqBlock('1')), []ErrorCode{StreamClosedError, ProtocolError}
	case 9: // RST_STREAM on a stream that was never opened (6.4)
		off, codes = vFrame(0x3, 0x0, 9, []byte{0, 0, 0, 8}), []ErrorCode{ProtocolError}
	default:
		off, codes = vConnOffence(which)
	}
	conn.in <- off
	vSettle()

	goaway, last, code := false, uint32(0), ErrorCode(0)
	for b := conn.w.out; len(b) >= 9; {
		f, used, st := refParseFrame(b, 0)
		if st != refFrOK {
			break
		}
		if f.typ == 0x7 {
			goaway, last, code = true, f.last, ErrorCode(f.code)
		}
		b = b[used:]
	}
	vNote(fmt.Sprintf("offence %d hold=%v stays=%v: goaway=%v code=%d last=%d started=%d", which, hold, stays, goaway, code, last, started))
	if goaway {
		okCode := false
		for _, c := range codes {
			okCode = okCode || code == c
		}
		vAssert(okCode, "C10.serve.code")
		vAssert(before == 0 || last >= uint32(2*before-1), "C10.serve.last-stream-id-covers-dispatched")
		// whatever the pool hands out next is not in a running handler's hands
		for k := 0; k < 3; k++ {
			x := ctxPool.Get().(*fasthttp.RequestCtx)
			for _, r := range running {
				vAssert(x != r, "C17.serve.context-not-recycled-under-a-running-handler")
			}
		}
		conn.in <- vFrame(0x1, 0x5, 11, vReqBlock('b'))
		vSettle()
		vAssert(started == before, "C10.serve.nothing-dispatched-after-a-connection-error")
	}
	if !stays || !goaway {
		close(conn.in) // the peer is gone
		vSettle()
	}
	for range running {
		gate <- struct{}{}
	}
	vSettle()
	returned := false
	select {
	case <-result:
		returned = true
	default:
	}
	vAssert(returned, "C10.serve.returns-once-the-promised-streams-have-finished")
	_ = conn.Close()
	vSettle()
	vAssert(vLiveTasks() == 0, "C10.serve.no-task-left-behind")
	vPoolsSane("C10.serve")
	vCover("C10.serve.goaway-while-running", goaway && hold && stays && returned)
	vCover("C10.serve.window-by-settings", goaway && which == 7)
	vCover("C10.serve.after-end-stream", goaway && which == 6)
}
