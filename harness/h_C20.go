package http2

import (
	"github.com/valyala/fasthttp"
)

// C20 — malformed HTTP messages are rejected, well-formed ones accepted.

// vToken restricts field bytes to the vocabulary the property speaks about:
// letters, digits, '-' and ':' for names; visible ASCII for values.
func vNameBytes(b []byte) {
	for _, c := range b {
		vAssume((c >= 'a' && c <= 'z') || (c >= 'A' && c <= 'Z') || (c >= '0' && c <= '9') || c == '-' || c == ':')
	}
}

// One header field arriving on a stream with arbitrary header-list
// bookkeeping (which pseudo-headers were seen, whether a regular field was
// seen, content-length so far): handleHeaderFrame accepts it exactly when the
// RFC 7540 8.1.2 automaton does, and moves to the same bookkeeping. Equality
// of the step functions on all (state, field) pairs gives equality on header
// lists of every length. Names of 1..17 arbitrary bytes and values of 0..9
// arbitrary bytes (thorough); quick: name lengths {1,2,5,7,10,14,16,17}, value
// lengths {0,1,8,9}.
//
//verif:harness prop=C20 unwind=40 timeout=600 pure=hasUpperCase,parseUint,isConnectionSpecific
func VerifH_C20_reqstep() {
	sc := vNewServerConn()
	sc.maxHeaderList = -1
	strm := &Stream{id: 1, state: StreamStateOpen, window: 65535}
	strm.ctx = &fasthttp.RequestCtx{}
	s := refReqState{method: vBool(), scheme: vBool(), path: vBool(), authority: vBool(), regular: vBool()}
	strm.pseudoMethod, strm.pseudoScheme, strm.pseudoPath, strm.pseudoAuthority, strm.regularSeen = s.method, s.scheme, s.path, s.authority, s.regular

	var name, value []byte
	if vTier() > 0 {
		name = vBytes(vRange(1, 17))
		value = vBytes(vRange(0, 9))
	} else {
		// the lengths of every name and value the RFC's rules mention, and 1
		nl := [8]int{1, 2, 5, 7, 10, 14, 16, 17}
		vl := [4]int{0, 1, 8, 9}
		name = vBytes(nl[vRange(0, 7)])
		value = vBytes(vl[vRange(0, 3)])
	}
	n, ok, dupAuth := refReqStep(s, name, value)
	vAssume(!dupAuth)
	// a declared length above MaxRequestBodySize is refused early with
	// ENHANCE_YOUR_CALM: that is C13's limit, not a malformed message
	vAssume(!(ok && n.hasCL && n.cl > uint64(sc.maxRequestBodySize)))

	fr := AcquireFrameHeader()
	h := AcquireFrame(FrameHeaders).(*Headers)
	h.SetHeaders(vLiteralField(name, value))
	fr.SetBody(h)
	fr.SetStream(1)

	err := sc.handleHeaderFrame(strm, fr)
	if err == nil {
		// the verdict on a malformed request is kept on the stream until the
		// header block ends (this frame has no END_HEADERS)
		err = strm.rejected
	}

	vAssert((err == nil) == ok, "C20.reqstep.accept")
	if err == nil && ok {
		vAssert(strm.pseudoMethod == n.method && strm.pseudoScheme == n.scheme && strm.pseudoPath == n.path && strm.pseudoAuthority == n.authority, "C20.reqstep.pseudo-state")
		vAssert(strm.regularSeen == n.regular, "C20.reqstep.regular-seen")
		if n.hasCL && !s.hasCL {
			vAssert(strm.hasContentLength && uint64(strm.contentLength) == n.cl, "C20.reqstep.content-length")
		}
	}
	if err != nil {
		e, isH2 := err.(Error)
		vAssert(isH2 && e.Code() == ProtocolError, "C20.reqstep.error-code")
	}
	vCover("C20.reqstep.te-trailers", ok && len(name) == 2 && name[0] == 't' && len(value) == 8)
	vCover("C20.reqstep.connection", !ok && len(name) == 10 && name[0] == 'c' && !s.regular)
	vCover("C20.reqstep.cl", ok && n.hasCL && n.cl == 123)
}

// The end of the request header block: a HEADERS frame with END_HEADERS on a
// stream with arbitrary pseudo-header bookkeeping and an arbitrary :path of
// 0..2 bytes is accepted exactly when :method, :scheme and a non-empty :path
// have been seen (RFC 7540 8.1.2.3); otherwise the stream alone is refused
// with PROTOCOL_ERROR.
//
//verif:harness prop=C20 unwind=16
func VerifH_C20_reqend() {
	sc := vNewServerConn()
	sc.maxHeaderList = -1
	strm := &Stream{id: 1, state: StreamStateOpen, window: 65535}
	strm.ctx = &fasthttp.RequestCtx{}
	strm.pseudoMethod, strm.pseudoScheme, strm.pseudoPath, strm.pseudoAuthority = vBool(), vBool(), vBool(), vBool()
	strm.regularSeen = vBool()
	strm.path = vBytes(vRange(0, 2))
	vAssume(strm.pseudoPath || len(strm.path) == 0)
	strm.scheme = []byte("https")
	fr := AcquireFrameHeader()
	h := AcquireFrame(FrameHeaders).(*Headers)
	h.SetEndHeaders(true)
	fr.SetBody(h)
	fr.SetStream(1)
	fr.flags = fr.flags.Add(FlagEndHeaders)
	if vBool() {
		fr.flags = fr.flags.Add(FlagEndStream)
		h.SetEndStream(true)
	}

	err := sc.handleFrame(strm, fr)

	ok := strm.pseudoMethod && strm.pseudoScheme && strm.pseudoPath && len(strm.path) > 0
	vAssert((err == nil) == ok, "C20.reqend.accept")
	if err != nil {
		e, isH2 := err.(Error)
		vAssert(isH2 && e.Code() == ProtocolError && e.frameType == FrameResetStream, "C20.reqend.stream-error")
	} else {
		vAssert(strm.headersFinished, "C20.reqend.headers-finished")
	}
	vCover("C20.reqend.ok", err == nil)
	vCover("C20.reqend.empty-path", err != nil && strm.pseudoMethod && strm.pseudoScheme && strm.pseudoPath)
}

// parseUint (content-length, :status) on every string of 1..20 bytes: the
// decimal value when the string is all digits and the value fits an int,
// an error otherwise - never a wrapped value.
//
//verif:harness prop=C20 unwind=30
func VerifH_C20_uint() {
	b := vBytes(vRange(0, 20))
	digits := len(b) > 0
	over := false
	var v uint64
	const max = uint64(1)<<63 - 1
	for _, c := range b {
		d := vAnd(c >= '0', c <= '9')
		digits = vAnd(digits, d)
		dv := uint64(c - '0')
		over = vOr(over, vOr(v > max/10, v*10 > max-dv))
		v = v*10 + dv
	}
	n, err := parseUint(b)
	if digits && !over {
		vAssert(err == nil && uint64(n) == v, "C20.uint.value")
	} else {
		vAssert(err != nil, "C20.uint.rejects")
	}
	vCover("C20.uint.19digits", digits && !over && len(b) == 19)
	vCover("C20.uint.overflow", digits && over)
}
