package http2

import (
	"bytes"
	"fmt"

	"github.com/valyala/fasthttp"
)

// C01 — every multiplexed request reaches the handler once, intact; the reply
// is intact.

// vSeen is what a handler saw of one request, through the fasthttp API.
type vSeen struct {
	method, path, host, ua, body string
	fields                       []string // "name: value" of the other fields, in order
}

func vObserve(ctx *fasthttp.RequestCtx) vSeen {
	r := &ctx.Request
	seen := vSeen{method: string(r.Header.Method()), path: string(r.Header.RequestURI()), host: string(r.Header.Host()),
		ua: string(r.Header.UserAgent()), body: string(r.Body())}
	for _, name := range []string{"x-a", "x-b", "content-length", "x-t"} {
		if v := r.Header.Peek(name); v != nil {
			seen.fields = append(seen.fields, name+": "+string(v))
		}
	}
	return seen
}

func (a vSeen) same(b vSeen) bool {
	if a.method != b.method || a.path != b.path || a.host != b.host || a.ua != b.ua || a.body != b.body || len(a.fields) != len(b.fields) {
		return false
	}
	for i := range a.fields {
		if a.fields[i] != b.fields[i] {
			return false
		}
	}
	return true
}

// vRichBlock is a request header block that uses every representation:
// indexed (:method POST, :scheme https), literal without indexing with an
// indexed name (:path), literal with incremental indexing with an indexed
// name (:authority, user-agent), with a new name (x-a), never indexed (x-b),
// and a reference to the dynamic entry added a moment before.
func vRichBlock(digit byte) []byte {
	b := []byte{0x83, 0x87}
	b = append(b, 0x04, 0x02, '/', digit)                       // :path, without indexing
	b = append(b, 0x41, 0x03, 'h', '.', 'x')                    // :authority h.x, incremental indexing
	b = append(b, 0x7a, 0x02, 'u', 'a')                         // user-agent (58), incremental indexing
	b = append(b, 0x40, 0x03, 'x', '-', 'a', 0x02, 'v', '1')    // x-a: v1, new name, incremental indexing
	b = append(b, 0x10, 0x03, 'x', '-', 'b', 0x02, 'v', '2')    // x-b: v2, never indexed
	b = append(b, 0x0f, 0x0d, 0x01, '3')                        // content-length (28): 3, without indexing
	return b
}

type vObsServer struct {
	*vServer
	seen []vSeen
}

func vStartObsServer(max uint32) *vObsServer {
	o := &vObsServer{vServer: vStartServer(max)}
	inner := o.sc.h
	o.sc.h = func(ctx *fasthttp.RequestCtx) {
		o.seen = append(o.seen, vObserve(ctx))
		inner(ctx)
	}
	return o
}

// A request whose header block (every HPACK representation, 38 bytes,
// optionally after a dynamic table size update) is cut
// at any byte into HEADERS + CONTINUATION (quick) or at any two bytes into
// HEADERS + CONTINUATION + CONTINUATION (thorough), with the body in one or
// two DATA frames, optionally padded: the handler runs once and sees exactly
// the request it sees when the block arrives in one frame.
//
//verif:harness prop=C01,C20 unwind=200 timeout=600
func VerifH_C01_split() {
	blk := vRichBlock('1')
	if vBool() {
		// the block starts with a dynamic table size update (to 4096), as a
		// peer's first block after a SETTINGS_HEADER_TABLE_SIZE change does
		blk = append([]byte{0x3f, 0xe1, 0x1f}, blk...)
	}
	want := vSeen{method: "POST", path: "/1", host: "h.x", ua: "ua", body: "abc", fields: []string{"x-a: v1", "x-b: v2", "content-length: 3"}}
	s := vStartObsServer(8)
	cut1 := vRange(0, len(blk))
	cut2 := len(blk)
	if vTier() > 0 {
		cut2 = vRange(cut1, len(blk))
	}
	padded := vBool()
	switch {
	case cut1 == len(blk):
		s.send(vFrame(0x1, 0x4, 1, blk))
	case cut2 == len(blk):
		s.send(vFrame(0x1, 0x0, 1, blk[:cut1]))
		s.send(vFrame(0x9, 0x4, 1, blk[cut1:]))
	default:
		s.send(vFrame(0x1, 0x0, 1, blk[:cut1]))
		s.send(vFrame(0x9, 0x0, 1, blk[cut1:cut2]))
		s.send(vFrame(0x9, 0x4, 1, blk[cut2:]))
	}
	if padded {
		s.send(vFrame(0x0, 0x8, 1, []byte{2, 'a', 'b', 0, 0}))
		s.send(vFrame(0x0, 0x9, 1, []byte{1, 'c', 0}))
	} else if vBool() {
		s.send(vFrame(0x0, 0x0, 1, []byte("a")))
		s.send(vFrame(0x0, 0x0, 1, nil))
		s.send(vFrame(0x0, 0x1, 1, []byte("bc")))
	} else {
		s.send(vFrame(0x0, 0x1, 1, []byte("abc")))
	}
	r := vClassify(s.replies())
	vNote(fmt.Sprintf("cut1=%d cut2=%d padded=%v goaway=%v/%d rst=%v seen=%v", cut1, cut2, padded, r.goaway, r.goawayCode, r.rst, s.seen))
	vAssert(!r.goaway && len(r.rst) == 0, "C01.split.no-error")
	vAssert(len(s.seen) == 1, "C01.split.handler-runs-once")
	if len(s.seen) == 1 {
		vAssert(s.seen[0].same(want), "C01.split.request-intact")
	}
	vAssert(r.headers[1] == 1 && r.endStream[1] == 1, "C01.split.one-response")
	vCover("C01.split.mid-field", cut1 == 3)
}

// The other shapes a request can take: the HEADERS frame padded and carrying
// priority fields (exclusive bit, any dependency, any weight), the header block
// whole or cut in two, and the request ended by a trailer block (one field)
// that arrives whole or cut at any byte into HEADERS + CONTINUATION. The
// handler runs once and sees the same request, plus the trailer field.
//
//verif:harness prop=C01 unwind=200 timeout=600
func VerifH_C01_shapes() {
	blk := vRichBlock('1')
	tr := []byte{0x00, 0x03, 'x', '-', 't', 0x02, 't', '1'}
	want := vSeen{method: "POST", path: "/1", host: "h.x", ua: "ua", body: "abc", fields: []string{"x-a: v1", "x-b: v2", "content-length: 3"}}
	s := vStartObsServer(8)
	prio := vBool()
	padded := vBool()
	cut := [2]int{len(blk), 5}[vRange(0, 1)]
	trailers := vBool()
	var pl []byte
	flags := byte(0)
	if padded {
		pl = append(pl, 3)
		flags |= 0x8
	}
	if prio {
		dep := vU32()
		pl = append(pl, byte(dep>>24), byte(dep>>16), byte(dep>>8), byte(dep), vU8())
		flags |= 0x20
		vAssume(dep&0x7fffffff != 1) // a stream cannot depend on itself
	}
	pl = append(pl, blk[:cut]...)
	if padded {
		pl = append(pl, 0, 0, 0)
	}
	if cut == len(blk) {
		s.send(vFrame(0x1, flags|0x4, 1, pl))
	} else {
		s.send(vFrame(0x1, flags, 1, pl))
		s.send(vFrame(0x9, 0x4, 1, blk[cut:]))
	}
	if trailers {
		want.fields = append(want.fields, "x-t: t1")
		s.send(vFrame(0x0, 0x0, 1, []byte("abc")))
		tcut := vRange(0, len(tr))
		if tcut == len(tr) {
			s.send(vFrame(0x1, 0x5, 1, tr))
		} else {
			s.send(vFrame(0x1, 0x1, 1, tr[:tcut]))
			s.send(vFrame(0x9, 0x4, 1, tr[tcut:]))
		}
	} else {
		s.send(vFrame(0x0, 0x1, 1, []byte("abc")))
	}
	r := vClassify(s.replies())
	vNote(fmt.Sprintf("prio=%v padded=%v cut=%d trailers=%v goaway=%v/%d rst=%v seen=%v", prio, padded, cut, trailers, r.goaway, r.goawayCode, r.rst, s.seen))
	vAssert(!r.goaway && len(r.rst) == 0, "C01.shapes.no-error")
	vAssert(len(s.seen) == 1, "C01.shapes.handler-runs-once")
	if len(s.seen) == 1 {
		vAssert(s.seen[0].same(want), "C01.shapes.request-intact")
	}
	vAssert(r.headers[1] == 1 && r.endStream[1] == 1, "C01.shapes.one-response")
	vCover("C01.shapes.trailers-split", trailers && padded && prio && len(s.seen) == 1)
}

// Two requests whose frames are interleaved in every order (each request is
// HEADERS, DATA, DATA+END_STREAM) and whose handlers finish in either order:
// each handler runs once with its own request, each stream gets exactly one
// response with END_STREAM once.
//
//verif:harness prop=C01 unwind=200 timeout=600
func VerifH_C01_mux() {
	s := vStartObsServer(8)
	s.hold = true
	var q [2][][]byte
	for i := 0; i < 2; i++ {
		id := uint32(1 + 2*i)
		d := byte('1' + 2*i)
		blk := append(vBlock(true, d), 0x0f, 0x0d, 0x01, '2')
		q[i] = [][]byte{vFrame(0x1, 0x4, id, blk), vFrame(0x0, 0x0, id, []byte{d}), vFrame(0x0, 0x1, id, []byte{d})}
	}
	// stream 1's HEADERS must come before stream 3's (ids increase)
	s.send(q[0][0])
	q[0] = q[0][1:]
	for len(q[0])+len(q[1]) > 0 {
		pick := 0
		if len(q[0]) == 0 {
			pick = 1
		} else if len(q[1]) > 0 {
			pick = vRange(0, 1)
		}
		s.send(q[pick][0])
		q[pick] = q[pick][1:]
	}
	vAssert(len(s.seen) == 2, "C01.mux.both-dispatched")
	// handlers return in either order
	first := vRange(0, 1)
	_ = first // the gate is shared: release one, look, release the other
	s.gate <- struct{}{}
	vSettle()
	r1 := vClassify(s.replies())
	s.gate <- struct{}{}
	vSettle()
	r2 := vClassify(s.replies())
	vAssert(!r1.goaway && !r2.goaway && len(r1.rst)+len(r2.rst) == 0, "C01.mux.no-error")
	vAssert(r1.headers[1]+r2.headers[1] == 1 && r1.headers[3]+r2.headers[3] == 1, "C01.mux.one-response-each")
	vAssert(r1.endStream[1]+r2.endStream[1] == 1 && r1.endStream[3]+r2.endStream[3] == 1, "C01.mux.end-stream-once-each")
	for _, sn := range s.seen {
		d := sn.path[1:]
		vAssert(sn.method == "POST" && sn.body == d+d, "C01.mux.own-body")
	}
	vPoolsSane("C01.mux")
	vCover("C01.mux.done", len(s.seen) == 2)
}

// The response: status, two header fields and a body of 0..40 bytes set by
// the handler come back as one HEADERS frame whose block decodes (reference
// decoder) to :status first and then the fields, followed by DATA frames
// whose payloads concatenate to the body, END_STREAM exactly once, on the last
// frame.
//
//verif:harness prop=C01 unwind=200 timeout=600
func VerifH_C01_response() {
	s := vStartServer(8)
	n := vRange(0, 3) * 13
	body := make([]byte, n)
	for i := range body {
		body[i] = 'z'
	}
	status := [3]int{200, 404, 999}[vRange(0, 2)]
	// a third field whose name ends in an arbitrary token character: it comes
	// out lower-cased and otherwise untouched
	c := vU8()
	vAssume(refIsTchar(c))
	third := string([]byte{'y', '_', c})
	s.sc.h = func(ctx *fasthttp.RequestCtx) {
		ctx.Response.SetStatusCode(status)
		ctx.Response.Header.Set("X-One", "1")
		ctx.Response.Header.Set("x-two", "22")
		ctx.Response.Header.Set(third, "3")
		ctx.Response.SetBody(body)
	}
	s.send(vFrame(0x1, 0x5, 1, vReqBlock('1')))
	frames := s.replies()
	vAssert(len(frames) >= 1, "C01.response.answered")
	if len(frames) == 0 {
		return
	}
	h, ok := frames[0].Body().(*Headers)
	vAssert(ok && frames[0].Stream() == 1 && h.EndHeaders(), "C01.response.headers-first")
	if !ok {
		return
	}
	// decode the block with the reference decoder
	t := &refTable{max: 4096, limit: 4096}
	blk := h.Headers()
	var names, values []string
	thirdOK := false
	for pos := 0; pos < len(blk); {
		f, upd, used, st := refHpackRep(t, pos == 0, blk[pos:])
		vAssert(st == refOK, "C01.response.valid-header-block")
		if st != refOK {
			return
		}
		pos += used
		if upd {
			continue
		}
		if f.sidx == 0 && len(f.name) == 3 && len(f.value) == 1 && f.value[0] == '3' {
			thirdOK = vAnd(f.name[0] == 'y', vAnd(f.name[1] == '_', f.name[2] == refLowerByte(c)))
			continue
		}
		if f.sidx != 0 {
			names = append(names, refStatic[f.sidx-1][0])
		} else {
			names = append(names, string(f.name))
		}
		if f.whole {
			values = append(values, refStatic[f.sidx-1][1])
		} else {
			values = append(values, string(f.value))
		}
	}
	vAssert(len(names) >= 1 && names[0] == ":status", "C01.response.status-first")
	wantStatus := fmt.Sprint(status)
	if vSymbolic() {
		wantStatus = [3]string{"200", "404", "999"}[0]
		switch status {
		case 404:
			wantStatus = "404"
		case 999:
			wantStatus = "999"
		}
	}
	if len(values) >= 1 {
		vAssert(values[0] == wantStatus, "C01.response.status-value")
	}
	has := func(n, v string) bool {
		for i := range names {
			if names[i] == n && values[i] == v {
				return true
			}
		}
		return false
	}
	vAssert(has("x-one", "1") && has("x-two", "22"), "C01.response.fields-lower-cased-and-present")
	vAssert(thirdOK, "C01.response.field-name-lower-cased-and-otherwise-untouched")
	var got []byte
	ends := 0
	if h.EndStream() {
		ends++
	}
	for _, fr := range frames[1:] {
		d, ok := fr.Body().(*Data)
		vAssert(ok && fr.Stream() == 1, "C01.response.then-data")
		if !ok {
			return
		}
		vAssert(ends == 0, "C01.response.nothing-after-end-stream")
		got = append(got, d.Data()...)
		if d.EndStream() {
			ends++
		}
	}
	vAssert(bytes.Equal(got, body), "C01.response.body-intact")
	vAssert(ends == 1, "C01.response.end-stream-once")
	vCover("C01.response.body", n == 39 && ends == 1)
}
