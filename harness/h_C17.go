package http2

import (
	"bufio"
	"io"
	"net"
	"os"
	"time"

	"github.com/valyala/fasthttp"
)

// C17 — the server outlives any peer: no panic, no stuck or leaked connection.

// vConn is the socket: reads come from the harness, writes are collected and
// can be made to fail from a given byte on, Close unblocks a pending Read.
type vConn struct {
	in      chan []byte
	rest    []byte
	w       vWriter
	done    chan struct{}
	closed  bool
	onWrite func(p []byte) // called before every write (a probe for harnesses)
	wedged  chan struct{}  // non-nil: writes wait here (a peer that has stopped reading)
	expired chan struct{}  // closed by the first write deadline set while wedged
}

type vAddr struct{}

func (vAddr) Network() string { return "verif" }
func (vAddr) String() string  { return "peer" }

func (c *vConn) Read(p []byte) (int, error) {
	if len(c.rest) == 0 {
		select {
		case b, ok := <-c.in:
			if !ok {
				return 0, io.EOF
			}
			c.rest = b
		case <-c.done:
			return 0, io.ErrClosedPipe
		}
	}
	n := copy(p, c.rest)
	c.rest = c.rest[n:]
	return n, nil
}

func (c *vConn) Write(p []byte) (int, error) {
	if c.onWrite != nil {
		c.onWrite(p)
	}
	if c.wedged != nil {
		if c.expired == nil {
			c.expired = make(chan struct{})
		}
		select {
		case <-c.wedged:
		case <-c.expired:
			return 0, os.ErrDeadlineExceeded
		case <-c.done:
			return 0, io.ErrClosedPipe
		}
	}
	return c.w.Write(p)
}

func (c *vConn) Close() error {
	if !c.closed {
		c.closed = true
		close(c.done)
	}
	return nil
}

func (c *vConn) LocalAddr() net.Addr                { return vAddr{} }
func (c *vConn) RemoteAddr() net.Addr               { return vAddr{} }
func (c *vConn) SetDeadline(t time.Time) error      { return nil }
func (c *vConn) SetReadDeadline(t time.Time) error  { return nil }

// SetWriteDeadline on a wedged socket: whatever the instant, it passes, and
// the writes waiting then fail. (No harness sets one and clears it again.)
func (c *vConn) SetWriteDeadline(t time.Time) error {
	if c.wedged != nil {
		if c.expired == nil {
			c.expired = make(chan struct{})
		}
		select {
		case <-c.expired:
		default:
			close(c.expired)
		}
	}
	return nil
}

// A well-formed client byte stream (SETTINGS, a GET on stream 1, a POST with a
// body on stream 3, a PING: 76 bytes) is cut off after any number of bytes
// (thorough: delivered in two pieces split at any byte) and the peer
// disconnects; the server's writes fail from a chosen byte on (or
// never); handlers return at once or are still running when the peer goes.
// The real Serve runs with all its goroutines as tasks. No task traps, Serve
// returns, and once the handlers have returned no task is left and no stream
// or request context sits in a pool twice.
//
//verif:harness prop=C17 unwind=300 timeout=900 timeoutT=3000 maxstates=1000000
func VerifH_C17_cut() {
	var wire []byte
	wire = append(wire, vFrame(0x4, 0x0, 0, nil)...)
	wire = append(wire, vFrame(0x1, 0x5, 1, vReqBlock('1'))...)
	wire = append(wire, vFrame(0x1, 0x4, 3, vBlock(true, '3'))...)
	wire = append(wire, vFrame(0x0, 0x1, 3, []byte("ab"))...)
	wire = append(wire, vFrame(0x6, 0x0, 0, []byte{1, 2, 3, 4, 5, 6, 7, 8})...)
	cut := vRange(0, len(wire))
	failAt := [4]int{-1, 0, 9, 40}[vRange(0, 3)]
	hold := vBool()

	conn := &vConn{in: make(chan []byte, 4), done: make(chan struct{})}
	conn.w.failAt = failAt
	gate := make(chan struct{}, 8)
	started := 0
	sc := vNewServerConn()
	sc.c = conn
	sc.br = bufio.NewReaderSize(conn, 256)
	sc.bw = bufio.NewWriterSize(conn, 256)
	sc.st.maxStreams = 8
	sc.maxHeaderList = DefaultMaxHeaderListSize
	sc.pingInterval = -1
	sc.h = func(ctx *fasthttp.RequestCtx) {
		started++
		if hold {
			<-gate
		}
		ctx.Response.SetStatusCode(200)
		ctx.Response.SetBody([]byte("ok"))
	}
	result := make(chan error, 1)
	go func() { result <- sc.Serve() }()

	// thorough tier: the bytes arrive in two pieces, so that every frame is
	// also seen half-read with the rest still to come
	first := cut
	if vTier() > 0 {
		first = vRange(0, cut)
	}
	if first > 0 {
		conn.in <- wire[:first]
		vSettle()
	}
	if cut > first {
		conn.in <- wire[first:cut]
	}
	vSettle()
	close(conn.in) // the peer is gone
	vSettle()

	returned := false
	select {
	case <-result:
		returned = true
	default:
	}
	vAssert(returned, "C17.cut.serve-returns-when-the-peer-is-gone")
	_ = conn.Close() // what ServeConn does when Serve is back
	for i := 0; i < started; i++ {
		gate <- struct{}{}
	}
	vSettle()
	vAssert(vLiveTasks() == 0, "C17.cut.no-task-left-behind")
	vPoolsSane("C17.cut")
	vCover("C17.cut.mid-frame", cut == 20 && returned)
	vCover("C17.cut.write-fails", failAt == 9 && cut == len(wire) && returned)
	vCover("C17.cut.handler-running", hold && started == 2)
}

// The write side fails (from byte 0, 9 or 40 on) and the peer keeps sending:
// 140 PING frames, each of which makes the read loop queue an acknowledgement
// that nothing writes any more - more than the queue of frames to write holds -
// and then goes away. Serve returns and nothing is left behind.
//
//verif:harness prop=C17,C10 unwind=600 timeout=900
func VerifH_C17_flood() {
	failAt := [3]int{0, 9, 40}[vRange(0, 2)]
	conn := &vConn{in: make(chan []byte, 4), done: make(chan struct{})}
	conn.w.failAt = failAt
	sc := vNewServerConn()
	sc.c = conn
	sc.br = bufio.NewReaderSize(conn, 256)
	sc.bw = bufio.NewWriterSize(conn, 256)
	sc.st.maxStreams = 8
	sc.maxHeaderList = DefaultMaxHeaderListSize
	sc.pingInterval = -1
	sc.h = func(ctx *fasthttp.RequestCtx) { ctx.Response.SetStatusCode(200) }
	result := make(chan error, 1)
	go func() { result <- sc.Serve() }()
	wire := vFrame(0x4, 0x0, 0, nil)
	wire = append(wire, vFrame(0x1, 0x5, 1, vReqBlock('1'))...)
	for i := 0; i < 140; i++ {
		wire = append(wire, vFrame(0x6, 0x0, 0, []byte{0, 0, 0, 0, 0, 0, 0, byte(i)})...)
	}
	conn.in <- wire
	vSettle()
	close(conn.in)
	vSettle()
	returned := false
	select {
	case <-result:
		returned = true
	default:
	}
	vAssert(returned, "C17.flood.serve-returns-although-nothing-can-be-written")
	_ = conn.Close()
	vSettle()
	vAssert(vLiveTasks() == 0, "C17.flood.no-task-left-behind")
	vCover("C17.flood.early", failAt == 0 && returned)
}
