#!/bin/sh
# Builds the symbolic executor offline from the sources in /verif/engine.
set -e
cd "$(dirname "$0")/engine"
export GOFLAGS=-mod=mod GOPROXY=off GOSUMDB=off GOTOOLCHAIN=local
mkdir -p ../bin
go1.26.8 build -o ../bin/gosmt ./cmd/gosmt
